package harness

// Provider-level driver (DESIGN 3.5): the real aws.CloudProvider / NodeGroup
// driven directly through its public API against the same simulated AWS, in
// the same bubble, with the same clock, fault and choice machinery. Serves
// C17, C18, C19 and the provider half of C20.

import (
	"encoding/json"
	"fmt"
	"runtime/debug"
	"sort"
	"strings"
	"testing"
	"testing/synctest"
	"time"

	"github.com/atlassian/escalator/pkg/cloudprovider"
	awsprov "github.com/atlassian/escalator/pkg/cloudprovider/aws"
	v1 "k8s.io/api/core/v1"
	metav1 "k8s.io/apimachinery/pkg/apis/meta/v1"
)

// ProvCase pins a directed provider-level case (fault enumeration).
type ProvCase struct {
	Kind      string `json:"kind"` // "fleet" | "delete"
	Size      int    `json:"size"` // fleet size d / node-list length
	Lifecycle string `json:"lifecycle"`
	Overrides int    `json:"overrides"`
	Failure   string `json:"failure"` // none | never-ready | attach#k | attach-after#k | terminate#k | status-error | terminate-asg#k
	K         int    `json:"k"`
	K2        int    `json:"k2"` // second failure (terminate call) for double-fault cases
	ForeignAt int    `json:"foreign_at"` // delete: position of a non-member (-1 none)
	Desired   int    `json:"desired"`
	Min       int    `json:"min"`
	Repeat    int    `json:"repeat,omitempty"` // fleet: the same failing scale-up this many times in a row (the documented third-failure exit)
}

type ProvSpec struct {
	Seed   uint64
	Prop   string
	Replay map[string][]uint32
	Case   *ProvCase
	KeepLog bool
	MaxOps int
}

var boundarySizes = []int{1, 2, 19, 20, 21, 39, 40, 41, 60, 999, 1000, 1001, 2000, 2001, 2500}

type provRun struct {
	w     *World
	st    *Stats
	res   *RunResult
	spec  ProvSpec
	g     *GroupCfg
	gw    *GroupWorld
	cloud *awsprov.CloudProvider
	ng    cloudprovider.NodeGroup
	gs    *GroupScan
	opIdx int
	consecutiveFleetFailures int
	exited bool
	deletesSinceRefresh int // acknowledged terminates since the last refresh (the F6 site)
	acquiredEver, attachedEver map[string]bool // over the whole history: instances some fleet request returned / acknowledged attaches
}

func (p *provRun) viol(prop, rule, sub, site, detail string, hl ...*Call) {
	v := Violation{Property: prop, Rule: rule, Sub: sub, Site: site, Scan: p.opIdx, Group: p.g.Name, Detail: detail}
	mark := map[*Call]bool{}
	for _, c := range hl {
		mark[c] = true
	}
	for i, c := range p.gs.Calls {
		if i > 40 {
			v.Excerpt = append(v.Excerpt, fmt.Sprintf("  ... %d more calls", len(p.gs.Calls)-i))
			break
		}
		v.Excerpt = append(v.Excerpt, ifs(mark[c], ">>", "  ")+c.Line())
	}
	if p.spec.Prop != "" && v.Property != p.spec.Prop {
		p.st.Probe("other-property-violation:" + v.Property + "/" + v.Rule)
		return
	}
	p.res.Violations = append(p.res.Violations, v)
}

func RunProvider(t *testing.T, spec ProvSpec, stats *Stats) (res *RunResult) {
	res = &RunResult{Seed: spec.Seed, Prop: spec.Prop}
	synctest.Test(t, func(t *testing.T) {
		defer func() {
			if r := recover(); r != nil {
				res.HarnessErr = "provider driver panic: " + fmt.Sprint(r) + "\n" + string(debug.Stack())
			}
		}()
		runProviderInBubble(spec, stats, res)
	})
	return res
}

func RunProviderReplay(t *testing.T, rf *ReplayFile, verbose bool) *RunResult {
	spec := ProvSpec{Seed: rf.RunSeed, Prop: rf.Property, Replay: rf.Streams, MaxOps: rf.MaxScans, KeepLog: verbose}
	if spec.Replay == nil && !rf.Generate {
		spec.Replay = map[string][]uint32{}
	}
	if rf.Variant != "" {
		var pc ProvCase
		if err := json.Unmarshal([]byte(rf.Variant), &pc); err == nil {
			spec.Case = &pc
		}
	}
	return RunProvider(t, spec, newStats())
}

func runProviderInBubble(spec ProvSpec, stats *Stats, res *RunResult) {
	ch := NewChoices(spec.Seed, spec.Replay)
	s := ch.S("prov/cfg")
	cfg := &RunCfg{Faults: map[string]bool{}, Actors: map[string]bool{}, ForceFault: map[string]string{}, ScanInterval: 30 * time.Second, Calm: true, Horizon: 1, MaxLives: 1, TickEvery: time.Hour}
	for _, f := range allFaultKinds {
		cfg.Faults[f] = true
	}
	cfg.Faults[FFewer] = false // an answer without the group leaves provider cache and known-ASG model on different snapshots; the controller-level simulation covers it
	g := &GroupCfg{Name: "pg", LabelKey: "ng", LabelValue: "v", ASG: "asg-p", NodeCPU: 4000, NodeMem: 16 << 30}
	pc := spec.Case
	// ASG shape
	size := []int{3, 0, 1, 10, 25, 45, 120}[s.Pick(4, 1, 2, 3, 2, 1, 1)]
	min := s.Intn(size + 1)
	if s.Chance(0.5) {
		min = s.Intn(3)
		if min > size {
			min = size
		}
	}
	max := size + []int{0, 1, 5, 30, 100, 3000}[s.Pick(1, 2, 3, 3, 2, 2)]
	if max < 1 {
		max = 1
	}
	fleet := s.Chance(0.5)
	if pc != nil {
		fleet = pc.Kind == "fleet" || pc.Kind == "replace"
		if pc.Kind == "fleet" {
			size, min, max = 2, 0, 2+pc.Size*(6+pc.Repeat)+s.Intn(3)
		} else {
			size, min = pc.Desired, pc.Min
			max = size + 5
			fleet = pc.Lifecycle == "fleet" || pc.Kind == "replace"
		}
	}
	if fleet {
		g.LaunchTemplateID, g.LaunchTemplateVersion = "lt-p", "1"
		g.Lifecycle = []string{"", "on-demand", "spot"}[s.Intn(3)]
		g.Overrides = [][]string{nil, {"m5.large"}, {"c5.xlarge", "m5.xlarge"}}[s.Intn(3)]
		g.FleetTimeout = []string{"", "4500ms", "30500ms"}[s.Intn(3)]
		if pc != nil {
			g.Lifecycle = pc.Lifecycle
			g.Overrides = [][]string{nil, {"m5.large"}, {"c5.xlarge", "m5.xlarge"}}[pc.Overrides%3]
			g.FleetTimeout = "10500ms"
		}
	}
	g.Tagging = s.Chance(0.3)
	g.ASGMin, g.ASGMax = int64(min), int64(max)
	cfg.Groups = []*GroupCfg{g}
	var g2 *GroupCfg
	if pc != nil && pc.Kind == "fleet-cross" {
		// a second fleet-mode group behind the same provider
		g.LaunchTemplateID, g.LaunchTemplateVersion, g.FleetTimeout = "lt-p", "1", "10500ms"
		g.ASGMax = 200
		g2 = &GroupCfg{Name: "qg", LabelKey: "ng", LabelValue: "q", ASG: "asg-q", NodeCPU: 4000, NodeMem: 16 << 30, Idx: 1,
			LaunchTemplateID: "lt-q", LaunchTemplateVersion: "1", FleetTimeout: "10500ms", ASGMin: 0, ASGMax: 200}
		cfg.Groups = append(cfg.Groups, g2)
	}
	if pc == nil {
		cfg.FaultP = []float64{0, 0.05, 0.15}[s.Pick(2, 2, 1)]
		cfg.Calm = cfg.FaultP == 0
	}
	w := newWorld(ch, cfg, baseProfile(), stats, spec.KeepLog)
	p := &provRun{w: w, st: stats, res: res, spec: spec, g: g, gw: w.groups[0]}
	start := time.Now()
	defer func() {
		res.SimSeconds = time.Since(start).Seconds()
		stats.SimSeconds += res.SimSeconds
		res.LogHash = w.LogHash()
		res.Log = w.logLines
		res.Streams = ch.Recorded()
		res.Scans = p.opIdx
	}()
	// simulated AWS state
	asg := &ASG{Name: g.ASG, Min: g.ASGMin, Max: g.ASGMax, Desired: int64(size), VPCZone: "subnet-a,subnet-b", Tags: map[string]string{}, Owner: g.Name}
	w.aws.asgs[asg.Name] = asg
	other := &ASG{Name: "asg-other", Min: 0, Max: 10, Desired: 2, VPCZone: "subnet-z", Tags: map[string]string{}, Owner: "~other"}
	w.aws.asgs[other.Name] = other
	for k := 0; k < size; k++ {
		i := p.gw.newInstance(asg.Name, false)
		i.Life, i.EC2State = "InService", "running"
	}
	for k := 0; k < 2; k++ {
		id := fmt.Sprintf("i-other%d", k)
		w.aws.insts[id] = &Inst{ID: id, AZ: "us-east-1a", ASG: other.Name, Life: "InService", EC2State: "running", Launch: time.Now(), Owner: "~other"}
	}
	if g2 != nil {
		w.aws.asgs[g2.ASG] = &ASG{Name: g2.ASG, Min: 0, Max: 200, Desired: 2, VPCZone: "subnet-q", Tags: map[string]string{}, Owner: g2.Name}
		for k := 0; k < 2; k++ {
			i := w.groups[1].newInstance(g2.ASG, false)
			i.Life, i.EC2State = "InService", "running"
		}
	}
	w.events = nil // the provider-level driver has no kubelets: no registrations, no reconciler
	// real provider, as aws.Builder.Build assembles it after session creation
	cfgGroups := []*GroupCfg{withValidOptions(g)}
	if g2 != nil {
		cfgGroups = append(cfgGroups, withValidOptions(g2))
	}
	_, provCfgs, _, err := LoadOptions((&RunCfg{Groups: cfgGroups}).ConfigText())
	if err != nil || len(provCfgs) != len(cfgGroups) {
		res.HarnessErr = fmt.Sprintf("provider config: %v", err)
		return
	}
	w.startup = true
	w.noFaults = true
	p.cloud = awsprov.VerifNewCloudProvider(&asgAPI{a: w.aws}, &ec2API{a: w.aws})
	if err := p.cloud.RegisterNodeGroups(provCfgs...); err != nil {
		res.HarnessErr = "register: " + err.Error()
		return
	}
	w.startup, w.noFaults = false, false
	ng, ok := p.cloud.GetNodeGroup(g.ASG)
	if !ok {
		res.HarnessErr = "node group not registered"
		return
	}
	p.ng = ng
	stats.Lifetimes++
	if pc != nil && pc.Kind == "fleet-cross" {
		p.fleetCross(pc, g2)
		return
	}
	if pc != nil {
		p.directed(pc)
		return
	}
	ops := ch.S("prov/ops")
	nops := 5 + ops.Intn(20)
	if spec.MaxOps > 0 && spec.MaxOps < nops {
		nops = spec.MaxOps
	}
	for p.opIdx = 0; p.opIdx < nops && len(res.Violations) == 0 && !p.exited; p.opIdx++ {
		time.Sleep(time.Duration(ops.Intn(30)) * time.Second)
		// the controller refreshes the provider at the start of every scan; within
		// a scan it issues at most: [DeleteNodes (force batch)] then one of
		// {DeleteNodes (grace batch), IncreaseSize}. Histories follow that shape.
		p.opRefresh()
		if len(res.Violations) > 0 {
			break
		}
		switch ops.Pick(5, 4, 2, 3, 1, 2) {
		case 0:
			p.opIncrease(p.drawDelta(ops))
		case 1:
			p.opDelete(p.drawNodeList(ops))
		case 2:
			p.opDelete(p.drawNodeList(ops))
			if len(res.Violations) == 0 {
				p.st.Probe("two delete batches without a refresh in between")
				p.opDelete(p.drawNodeList(ops))
			}
		case 3:
			p.opDelete(p.drawNodeList(ops))
			if len(res.Violations) == 0 {
				p.st.Probe("delete then increase without a refresh in between")
				p.opIncrease(p.drawDelta(ops))
			}
		case 4:
			p.opDecrease(-int64(1 + ops.Intn(3)))
		case 5:
			p.opGetInstance(ops)
		}
	}
}

func withValidOptions(g *GroupCfg) *GroupCfg {
	c := *g
	c.Min, c.Max = 0, 0
	c.Upper, c.Lower, c.ScaleUp = 45, 30, 70
	c.Slow, c.Fast = 1, 2
	c.Soft, c.Hard, c.CoolDown = time.Minute, 2*time.Minute, time.Minute
	return &c
}

func (p *provRun) begin(name string) {
	w := p.w
	w.ctx = p.g.Name
	p.gs = &GroupScan{Group: p.g.Name}
	w.gscan = p.gs
	w.scan = &ScanRecord{Index: p.opIdx}
	w.logf("op %d %s", p.opIdx, name)
	p.st.Scans++
}

func (p *provRun) guard(f func() error) (err error, panicked string, exit bool) {
	defer func() {
		if r := recover(); r != nil {
			switch r.(type) {
			case exitSentinel:
				exit = true
				p.st.Exits++
			default:
				panicked = fmt.Sprint(r)
				p.res.Summary = string(debug.Stack())
				if m := unimplementedSDK(p.res.Summary); m != "" {
					p.res.HarnessErr = "the code under test called " + m + ", which the simulated AWS does not implement"
				}
			}
		}
	}()
	err = f()
	return
}

func (p *provRun) known() *KnownASG { return p.w.known[p.g.ASG].clone() }

func (p *provRun) siteAfterRemoval() string {
	return ifs(p.deletesSinceRefresh > 0, "after-same-scan-removal", "")
}

func (p *provRun) opRefresh() {
	p.begin("Refresh")
	p.deletesSinceRefresh = 0
	p.w.ctx = "" // a refresh is what feeds the known-ASG model
	err, pan, _ := p.guard(func() error { return p.cloud.Refresh() })
	p.w.ctx = p.g.Name
	if pan != "" {
		p.viol("C20", "c20-panic", "provider", "Refresh", "Refresh panicked: "+pan)
	}
	if err != nil {
		// the controller never proceeds on a failed refresh (it rebuilds the provider or stops): refresh again, fault-free
		p.st.Probe("refresh failed, retried")
		p.w.ctx = ""
		p.w.noFaults = true
		_, _, _ = p.guard(func() error { return p.cloud.Refresh() })
		p.w.noFaults = false
		p.w.ctx = p.g.Name
	}
	if ng, ok := p.cloud.GetNodeGroup(p.g.ASG); ok {
		p.ng = ng
	}
}

func (p *provRun) drawDelta(s *Stream) int64 {
	k := p.known()
	room := k.Max - k.Desired
	switch s.Pick(5, 2, 1, 1, 1) {
	case 0:
		if room <= 0 {
			return 1
		}
		return 1 + int64(s.Intn(int(minI64(room, 60))))
	case 1:
		return int64(boundarySizes[s.Intn(len(boundarySizes))])
	case 2:
		return room
	case 3:
		return room + 1
	default:
		return int64(s.Intn(3)) - 2 // -2,-1,0
	}
}

func minI64(a, b int64) int64 {
	if a < b {
		return a
	}
	return b
}

func (p *provRun) opIncrease(d int64) {
	p.begin(fmt.Sprintf("IncreaseSize(%d)", d))
	k := p.known()
	err, pan, exit := p.guard(func() error { return p.ng.IncreaseSize(d) })
	if pan != "" {
		p.viol("C20", "c20-panic", "provider", "IncreaseSize", "IncreaseSize panicked: "+pan)
		return
	}
	p.judgeIncrease(d, k, err, exit)
}

func (p *provRun) judgeIncrease(d int64, k *KnownASG, err error, exit bool) {
	amb := false
	if kk := p.w.known[p.g.ASG]; !k.Valid && k.Ambiguous || kk != nil && kk.Ambiguous {
		p.st.Probe("increase judged without a known cloud state (ambiguous)")
		amb = true // what does not depend on the group's current size and maximum is still judged
	}
	gs, g := p.gs, p.g
	st := p.st
	var writes, sets, fleets, attaches, terms []*Call
	for _, c := range gs.Calls {
		if isMutating(c.Op) {
			writes = append(writes, c)
		}
		switch c.Op {
		case OpSetDesired:
			sets = append(sets, c)
		case OpCreateFleet:
			fleets = append(fleets, c)
		case OpAttach:
			attaches = append(attaches, c)
		case OpTerminateEC2:
			terms = append(terms, c)
		}
	}
	st.Check("c17", uint64(d)<<20|uint64(len(attaches))<<8|uint64(len(terms)))
	if amb && d > 0 && p.g.LaunchTemplateID == "" {
		return
	}
	if d <= 0 || !amb && k.Desired+d > k.Max {
		st.Probe(ifs(d <= 0, "increase d<=0", "increase over max"))
		if err == nil {
			p.viol("C17", "c17-rejected-write", "no-error", p.siteAfterRemoval(), fmt.Sprintf("IncreaseSize(%d) on desired %d max %d returned no error", d, k.Desired, k.Max))
		}
		if len(writes) > 0 {
			p.viol("C17", "c17-rejected-write", "", p.siteAfterRemoval(), fmt.Sprintf("IncreaseSize(%d) on desired %d max %d must be rejected without any AWS write", d, k.Desired, k.Max), writes...)
		}
		return
	}
	if g.LaunchTemplateID == "" {
		if len(sets) == 0 || len(fleets) != 0 || !identicalRetries(sets) {
			p.viol("C17", "c17-exact", "calls", p.siteAfterRemoval(), fmt.Sprintf("IncreaseSize(%d): %d SetDesiredCapacity, %d CreateFleet calls", d, len(sets), len(fleets)), writes...)
			return
		}
		c := sets[len(sets)-1] // earlier ones, if any, are refused requests for the very same size
		if c.Target != g.ASG || c.Desired != k.Desired+d {
			p.viol("C17", "c17-exact", "", p.siteAfterRemoval(), fmt.Sprintf("IncreaseSize(%d) on known desired %d issued SetDesiredCapacity(%s, %d)", d, k.Desired, c.Target, c.Desired), c)
			if p.deletesSinceRefresh > 0 {
				p.viol("C07", "c07-remainder", "provider", "after-same-scan-removal", fmt.Sprintf("after %d accepted termination(s) in the same scan the known desired size is %d; a request for %d more nodes issued SetDesiredCapacity(%d) instead of %d", p.deletesSinceRefresh, k.Desired, d, c.Desired, k.Desired+d), c)
			}
		}
		if c.Desired < k.Desired {
			p.viol("C17", "c17-lowered", "", "", fmt.Sprintf("scale-up lowered desired capacity %d -> %d", k.Desired, c.Desired), c)
		}
		if (err == nil) != (c.Err == "") {
			p.viol("C17", "c17-exact", "reported", "", fmt.Sprintf("SetDesiredCapacity err=%q but IncreaseSize returned %v", c.Err, err), c)
		}
		return
	}
	// fleet mode
	if len(sets) != 0 {
		p.viol("C17", "c17-fleet-request", "mode", "", "SetDesiredCapacity used in fleet mode", sets...)
		return
	}
	if len(fleets) > 1 && identicalRetries(fleets) {
		st.Probe("refused CreateFleet repeated")
		fleets = fleets[len(fleets)-1:] // the earlier ones were refused and acquired nothing
	}
	if len(fleets) != 1 {
		if len(fleets) == 0 && err != nil {
			return // failed before the request (subnet lookup): nothing acquired
		}
		p.viol("C17", "c17-fleet-request", "calls", "", fmt.Sprintf("%d CreateFleet calls for one scale-up", len(fleets)), fleets...)
		return
	}
	f := fleets[0]
	life := g.Lifecycle
	if life == "" {
		life = "on-demand"
	}
	if f.FleetTotal != d || f.FleetMin != d || f.FleetOther != -1 || f.FleetType != "instant" || f.FleetLifecycle != life {
		p.viol("C17", "c17-fleet-request", "", "", fmt.Sprintf("IncreaseSize(%d) lifecycle %s: CreateFleet total=%d min(matching)=%d min(other)=%d type=%s default-type=%s", d, life, f.FleetTotal, f.FleetMin, f.FleetOther, f.FleetType, f.FleetLifecycle), f)
		return
	}
	if len(g.Overrides) > 0 {
		st.Probe("fleet with instance-type overrides")
	}
	for _, d0 := range []int64{1, 19, 20, 21, 40, 41} {
		if d == d0 {
			st.Probe(fmt.Sprintf("fleet d=%d", d0))
		}
	}
	F := f.IDs
	if f.Err != "" || len(F) == 0 {
		if err == nil {
			p.viol("C18", "c18-reported", "fleet-failed", "", "CreateFleet returned no instances but IncreaseSize reported success", f)
		}
		return
	}
	acked := map[string]int{}
	termd := map[string]int{}
	for _, c := range attaches {
		if c.Err == "" {
			for _, id := range c.IDs {
				acked[id]++
			}
		}
	}
	allAttached := true
	for _, id := range F {
		if acked[id] == 0 {
			allAttached = false
		}
	}
	// the provider's consecutive-failure counter (documented: the third one ends the process)
	if allAttached {
		p.consecutiveFleetFailures = 0
	} else {
		p.consecutiveFleetFailures++
	}
	if exit {
		p.exited = true
	}
	for _, c := range attaches {
		if len(c.IDs) > 20 || len(c.IDs) == 0 {
			p.viol("C17", "c17-attach-once", "batch", "", fmt.Sprintf("AttachInstances with %d ids", len(c.IDs)), c)
			return
		}
		if c.Target != g.ASG {
			p.viol("C17", "c17-attach-once", "asg", "", "AttachInstances to "+c.Target, c)
			return
		}
	}
	for _, c := range terms {
		if len(c.IDs) > 1000 {
			p.viol("C18", "c18-batch", "", "terminateOrphanedInstances", fmt.Sprintf("TerminateInstances call carrying %d instance ids (fleet of %d)", len(c.IDs), len(F)), c)
			return
		}
		for _, id := range c.IDs {
			termd[id]++
		}
	}
	st.Check("c18", uint64(len(F))<<20|uint64(len(attaches))<<8|uint64(len(terms)))
	if p.acquiredEver == nil {
		p.acquiredEver, p.attachedEver = map[string]bool{}, map[string]bool{}
	}
	defer func() {
		for _, id := range F {
			p.acquiredEver[id] = true
		}
		for id := range acked {
			p.attachedEver[id] = true
		}
	}()
	inF := map[string]bool{}
	for _, id := range F {
		inF[id] = true
		a, x := acked[id] > 0, termd[id] > 0
		switch {
		case a && x:
			p.viol("C18", "c18-both", "", "", fmt.Sprintf("instance %s both attached (acknowledged) and submitted for termination (fleet of %d)", id, len(F)), f)
			return
		case !a && !x:
			p.viol("C18", "c18-neither", "", "", fmt.Sprintf("instance %s of the fleet of %d neither attached nor submitted for termination", id, len(F)), f)
			return
		}
		if acked[id] > 1 {
			p.viol("C17", "c17-attach-once", "", "", fmt.Sprintf("instance %s attached %d times", id, acked[id]), f)
			return
		}
	}
	for _, id := range sortedKeys(acked) {
		if !inF[id] {
			p.viol("C17", "c17-attach-once", "foreign", "", "attached instance "+id+" that the fleet did not return", f)
			return
		}
	}
	for _, id := range sortedKeys(termd) {
		if !inF[id] && p.acquiredEver[id] && !p.attachedEver[id] {
			st.Probe("orphan of an earlier fleet submitted for termination again")
			continue // C18 says every acquired instance ends up attached or submitted for termination, not when
		}
		if !inF[id] {
			p.viol("C18", "c18-both", "foreign-terminate", "", "terminated instance "+id+" that this fleet did not return", f)
			return
		}
	}
	if allAttached {
		if err != nil || exit {
			p.viol("C18", "c18-reported", "false-failure", "", fmt.Sprintf("all %d instances attached yet IncreaseSize returned %v", len(F), err), f)
		}
		st.Probe("fleet fully attached")
		if len(attaches) > 1 {
			st.Probe("fleet attached in several batches")
		}
	} else {
		st.Probe("fleet failure after acquisition")
		if len(F) > 1000 {
			st.Probe("more than 1000 orphans")
		}
		if exit {
			if p.consecutiveFleetFailures >= 3 {
				st.Probe("third consecutive fleet failure ends the process")
			} else {
				p.viol("C20", "c20-stop", "exit", "", fmt.Sprintf("process exit after %d consecutive fleet failures", p.consecutiveFleetFailures), f)
			}
			return
		}
		if err == nil {
			p.viol("C18", "c18-reported", "", "", fmt.Sprintf("%d of %d fleet instances were not attached, yet IncreaseSize reported success (no error => the cool-down lock would be taken)", len(F)-len(acked), len(F)), f)
		}
	}
}

func (p *provRun) mkNode(providerID, name string) *v1.Node {
	return &v1.Node{ObjectMeta: metav1.ObjectMeta{Name: name}, Spec: v1.NodeSpec{ProviderID: providerID}}
}

// drawNodeList builds a node list: members, foreign nodes, mixtures, with the
// foreign node at a drawn position.
func (p *provRun) drawNodeList(s *Stream) []*v1.Node {
	k := p.known()
	var members []string
	for id := range k.Instances {
		members = append(members, id)
	}
	sort.Strings(members)
	n := 1 + s.Intn(4)
	if s.Chance(0.2) {
		n = s.Intn(len(members) + 2)
	}
	perm := s.Perm(len(members))
	var nodes []*v1.Node
	for i := 0; i < n && i < len(members); i++ {
		id := members[perm[i]]
		nodes = append(nodes, p.mkNode(k.Instances[id], "ip-"+id))
	}
	if s.Chance(0.3) {
		foreign := []*v1.Node{
			p.mkNode("aws:///us-east-1a/i-other0", "ip-i-other0"),
			p.mkNode("aws:///us-east-1a/i-doesnotexist", "ip-ghost"),
			p.mkNode("", "ip-empty-provider"),
			p.mkNode("aws:///us-east-1a", "ip-short-provider"),
		}[s.Intn(4)]
		at := s.Intn(len(nodes) + 1)
		nodes = append(nodes[:at:at], append([]*v1.Node{foreign}, nodes[at:]...)...)
	}
	return nodes
}

func (p *provRun) opDelete(nodes []*v1.Node) {
	p.begin(fmt.Sprintf("DeleteNodes(%d)", len(nodes)))
	k := p.known()
	err, pan, _ := p.guard(func() error { return p.ng.DeleteNodes(nodes...) })
	if pan != "" {
		p.viol("C20", "c20-panic", "provider", "DeleteNodes", "DeleteNodes panicked: "+pan)
		return
	}
	p.judgeDelete(nodes, k, err)
}

func (p *provRun) judgeDelete(nodes []*v1.Node, k *KnownASG, err error) {
	if kk := p.w.known[p.g.ASG]; !k.Valid && k.Ambiguous || k.AmbiguousMembers || kk != nil && (kk.Ambiguous || kk.AmbiguousMembers) {
		p.st.Probe("delete judged without a known cloud state (ambiguous)")
		return
	}
	gs := p.gs
	defer func() {
		for _, c := range gs.Calls {
			if c.Op == OpTerminateASG && c.Err == "" {
				p.deletesSinceRefresh++
			}
		}
	}()
	st := p.st
	var terms, writes []*Call
	for _, c := range gs.Calls {
		if isMutating(c.Op) {
			writes = append(writes, c)
		}
		if c.Op == OpTerminateASG {
			terms = append(terms, c)
		}
	}
	st.Check("c19", uint64(len(nodes))<<16|uint64(len(terms))<<4|uint64(k.Desired-k.Min)&0xf)
	if len(writes) != len(terms) {
		p.viol("C19", "c19-instance", "other-write", "", "DeleteNodes issued AWS writes other than TerminateInstanceInAutoScalingGroup", writes...)
		return
	}
	if k.Desired <= k.Min || k.Desired-int64(len(nodes)) < k.Min {
		st.Probe("delete refused at the ASG minimum")
		if len(nodes) > 0 && len(terms) > 0 {
			p.viol("C19", "c19-refuse", "", ifs(p.deletesSinceRefresh > 0, "second-batch-in-scan", ""), fmt.Sprintf("known desired %d, min %d, %d nodes given: the whole request must be refused, %d terminate call(s) issued", k.Desired, k.Min, len(nodes), len(terms)), terms...)
		}
		if len(nodes) > 0 && err == nil {
			p.viol("C19", "c19-refuse", "no-error", ifs(p.deletesSinceRefresh > 0, "second-batch-in-scan", ""), fmt.Sprintf("known desired %d, min %d, %d nodes given: request not refused", k.Desired, k.Min, len(nodes)))
		}
		return
	}
	if int64(len(terms)) > k.Desired-k.Min {
		p.viol("C19", "c19-count", "", "", fmt.Sprintf("%d terminate calls with desired %d and min %d", len(terms), k.Desired, k.Min), terms...)
		return
	}
	// Set-wise, not in any order: the property fixes WHICH instances may be terminated and how the request
	// must end, not the order in which the given nodes are worked through, which non-member is named when
	// there are several, or whether the remaining nodes are still tried after one terminate failed.
	byInst := map[string]*v1.Node{}
	var foreign []*v1.Node
	for idx, n := range nodes {
		id := instanceOf(n.Spec.ProviderID)
		if pid, ok := k.Instances[id]; ok && pid == n.Spec.ProviderID {
			byInst[id] = n
		} else {
			foreign = append(foreign, n)
			st.Probe(fmt.Sprintf("foreign node at %s", ifs(idx == 0, "first", ifs(idx == len(nodes)-1, "last", "middle"))))
		}
	}
	acked := map[string]int{}
	anyFailed := false
	for _, c := range terms {
		n, ok := byInst[c.Target]
		if !ok {
			for _, f := range foreign {
				if instanceOf(f.Spec.ProviderID) == c.Target {
					p.viol("C19", "c19-foreign", "terminated", "", fmt.Sprintf("node %s (%q) is not a member of the known ASG, yet its instance was submitted for termination", f.Name, f.Spec.ProviderID), c)
					return
				}
			}
			p.viol("C19", "c19-instance", "", "", fmt.Sprintf("terminate call names %q, which backs none of the given nodes", c.Target), c)
			return
		}
		if !c.DecrementSet || !c.Decrement {
			p.viol("C19", "c19-instance", "", "", fmt.Sprintf("node %s is backed by %s: terminate call names %q decrement=%v", n.Name, c.Target, c.Target, c.Decrement), c)
			return
		}
		if c.Err != "" {
			anyFailed = true
			st.Probe("k-th terminate failed")
			continue
		}
		acked[c.Target]++
		if acked[c.Target] > 1 {
			p.viol("C19", "c19-instance", "extra", "", fmt.Sprintf("instance %s of node %s terminated twice in one request", c.Target, n.Name), terms...)
			return
		}
	}
	ne := asNotInGroup(err)
	if ne != nil {
		for _, n := range byInst {
			if n.Name == ne.NodeName {
				p.viol("C19", "c19-foreign", "member-refused", "", fmt.Sprintf("node %s (%q) IS a member of the known ASG, yet the request stopped with the not-in-group error naming it", n.Name, n.Spec.ProviderID))
				return
			}
		}
	}
	if len(foreign) > 0 {
		if anyFailed && err != nil {
			return // a cloud refusal ended the request before the non-member mattered
		}
		named := false
		for _, f := range foreign {
			if ne != nil && ne.NodeName == f.Name {
				named = true
			}
		}
		if !named {
			p.viol("C19", "c19-foreign", "error", "", fmt.Sprintf("node %s (%q) is not a member: expected the not-in-group error naming a non-member, got %v", foreign[0].Name, foreign[0].Spec.ProviderID, err))
		}
		return
	}
	if anyFailed {
		if err == nil {
			p.viol("C19", "c19-instance", "unreported", "", "a terminate call failed but DeleteNodes returned no error", terms...)
		}
		return
	}
	missing := ""
	for id, n := range byInst {
		if acked[id] == 0 && (missing == "" || n.Name < missing) {
			missing = n.Name
		}
	}
	if missing != "" {
		if err == nil {
			p.viol("C19", "c19-instance", "missing", "", fmt.Sprintf("no terminate call for member %s and no error", missing))
		}
		return
	}
	if err != nil {
		p.viol("C19", "c19-instance", "false-error", "", fmt.Sprintf("all %d terminates acknowledged yet DeleteNodes returned %v", len(terms), err))
	}
}

func (p *provRun) opDecrease(d int64) {
	p.begin(fmt.Sprintf("DecreaseTargetSize(%d)", d))
	_, pan, _ := p.guard(func() error { return p.ng.DecreaseTargetSize(d) })
	if pan != "" {
		p.viol("C20", "c20-panic", "provider", "DecreaseTargetSize", "DecreaseTargetSize panicked: "+pan)
	}
}

var oddProviderIDs = []string{"", "aws:///", "aws:///us-east-1a", "foo", "aws://us-east-1a/i-123", "/////", "aws:///us-east-1a/i-doesnotexist"}

func (p *provRun) opGetInstance(s *Stream) {
	pid := oddProviderIDs[s.Intn(len(oddProviderIDs))]
	if s.Chance(0.5) {
		k := p.known()
		ids := make([]string, 0, len(k.Instances))
		for id := range k.Instances {
			ids = append(ids, id)
		}
		sort.Strings(ids) // never let map order pick
		if len(ids) > 0 {
			pid = k.Instances[ids[0]]
		}
	}
	p.begin("GetInstance(" + pid + ")")
	p.st.Check("c20-getinstance", uint64(len(pid)))
	var inst cloudprovider.Instance
	err, pan, _ := p.guard(func() error {
		var e error
		inst, e = p.cloud.GetInstance(p.mkNode(pid, "ip-x"))
		return e
	})
	if pan != "" {
		site := "GetInstance"
		if strings.Contains(pan, "index out of range") {
			site = "providerIDToInstanceID"
		}
		p.viol("C20", "c20-panic", "provider", site, fmt.Sprintf("GetInstance on a node with provider ID %q panicked: %s", pid, pan))
		return
	}
	if err == nil && inst != nil {
		_, pan, _ = p.guard(func() error { _ = inst.InstantiationTime(); _ = inst.ID(); return nil })
		if pan != "" {
			p.viol("C20", "c20-panic", "provider", "Instance", "Instance accessor panicked: "+pan)
		}
	}
}

// fleetCross: K failed fleet scale-ups of group qg, then ONE failed fleet scale-up of group pg behind the
// same provider. pg's first failure must not end the process (the consecutive-failure limit is per group).
func (p *provRun) fleetCross(pc *ProvCase, g2 *GroupCfg) {
	w := p.w
	ng2, ok := p.cloud.GetNodeGroup(g2.ASG)
	if !ok {
		p.res.HarnessErr = "second node group not registered"
		return
	}
	fail := func(group string) {
		key := fmt.Sprintf("%s/%s#%d", group, OpAttach, w.occ[group+"/"+OpAttach]+1)
		w.cfg.ForceFault[key] = FErrBefore
	}
	refresh := func() {
		w.ctx = ""
		_, _, _ = p.guard(func() error { return p.cloud.Refresh() })
	}
	for r := 0; r < pc.K; r++ {
		refresh()
		p.opIdx++
		w.ctx = g2.Name
		p.gs = &GroupScan{Group: g2.Name}
		w.gscan = p.gs
		w.scan = &ScanRecord{Index: p.opIdx}
		w.logf("op %d %s IncreaseSize(%d) with a failing attach", p.opIdx, g2.Name, pc.Size)
		fail(g2.Name)
		_, pan, exit := p.guard(func() error { return ng2.IncreaseSize(int64(pc.Size)) })
		if pan != "" {
			p.viol("C20", "c20-panic", "provider", "IncreaseSize", pan)
			return
		}
		if exit {
			return // qg itself reached its own limit: nothing to judge for pg
		}
	}
	refresh()
	p.opIdx++
	p.begin(fmt.Sprintf("IncreaseSize(%d) with a failing attach, first failure of this group", pc.Size))
	fail(p.g.Name)
	p.st.Check("c12-cross-group-exit", uint64(pc.K)<<8|uint64(pc.Size))
	p.st.Probe("fleet failures in another group before this group's first failure")
	_, pan, exit := p.guard(func() error { return p.ng.IncreaseSize(int64(pc.Size)) })
	if pan != "" {
		p.viol("C20", "c20-panic", "provider", "IncreaseSize", pan)
		return
	}
	if exit {
		d := fmt.Sprintf("group %s met its FIRST failed fleet scale-up and the process exited: %d earlier failures of group %s were charged to it", p.g.Name, pc.K, g2.Name)
		p.viol("C12", "c12-cross-group-exit", "", "", d)
		p.viol("C20", "c20-stop", "exit-early", "", d)
		p.viol("C18", "c18-reported", "exit-early", "", d)
	}
}

// directed runs one pinned case (fault enumeration for C18/C19).
func (p *provRun) directed(pc *ProvCase) {
	w := p.w
	key := func(op string, k int) string { return fmt.Sprintf("%s/%s#%d", p.g.Name, op, k) }
	p.opRefresh()
	p.opIdx = 1
	switch pc.Kind {
	case "fleet":
		switch {
		case pc.Failure == "never-ready":
			w.cfg.Calm = false
			w.cfg.ForceFault["never-ready"] = "all"
		case pc.Failure == "attach", pc.Failure == "attach-then-over-max", pc.Failure == "alternating":
			w.cfg.ForceFault[key(OpAttach, pc.K)] = FErrBefore
		case pc.Failure == "attach-after":
			w.cfg.ForceFault[key(OpAttach, pc.K)] = FErrAfter
		case pc.Failure == "status-error":
			w.cfg.ForceFault[key(OpStatus, pc.K)] = FErrBefore
		case pc.Failure == "fleet-error":
			w.cfg.ForceFault[key(OpCreateFleet, 1)] = FErrBefore
		case pc.Failure == "fleet-errors-only":
			w.cfg.ForceFault[key(OpCreateFleet, 1)] = FErrorsOnly
		case pc.Failure == "fleet-errors-plus":
			w.cfg.ForceFault[key(OpCreateFleet, 1)] = FErrorsPlus
		}
		if pc.K2 > 0 {
			w.cfg.ForceFault[key(OpTerminateEC2, pc.K2)] = FErrBefore
		}
		p.opIncrease(int64(pc.Size))
		if pc.Failure == "alternating" {
			// fail, ok, fail, ok, fail: never three CONSECUTIVE failures, so the process must not exit
			for r := 1; r < 5 && len(p.res.Violations) == 0 && !p.exited; r++ {
				p.opIdx++
				p.opRefresh()
				if r%2 == 0 {
					w.cfg.ForceFault[key(OpAttach, w.occ[p.g.Name+"/"+OpAttach]+1)] = FErrBefore
				}
				p.opIdx++
				p.opIncrease(int64(pc.Size))
			}
		}
		if pc.Failure == "attach-then-over-max" && len(p.res.Violations) == 0 && !p.exited {
			// the next refresh answer lacks the group (the provider keeps its cache), then a scale-up that
			// exceeds the ASG maximum given the batches that WERE attached: must be rejected without a write
			p.opIdx++
			p.begin("Refresh(answer without the group)")
			w.cfg.ForceFault[fmt.Sprintf("/%s#%d", OpDescribeASG, w.occ["/"+OpDescribeASG]+1)] = FFewer
			w.cfg.Faults[FFewer] = true
			w.ctx = ""
			_, _, _ = p.guard(func() error { return p.cloud.Refresh() })
			w.ctx = p.g.Name
			k := p.known()
			p.opIdx++
			p.opIncrease(k.Max - k.Desired + 1)
		}
		for r := 1; r < pc.Repeat && len(p.res.Violations) == 0 && !p.exited; r++ {
			// the same failure again, after a refresh, as consecutive scans would meet it
			p.opIdx++
			p.opRefresh()
			batches := (pc.Size + 19) / 20
			switch pc.Failure {
			case "attach":
				w.cfg.ForceFault[key(OpAttach, w.occ[p.g.Name+"/"+OpAttach]+pc.K)] = FErrBefore
			case "status-error":
				w.cfg.ForceFault[key(OpStatus, w.occ[p.g.Name+"/"+OpStatus]+pc.K)] = FErrBefore
			}
			_ = batches
			p.opIdx++
			p.opIncrease(int64(pc.Size))
		}
	case "replace":
		// a member leaves, a newcomer joins (same group size), then the newcomer is removed / the leaver is named again
		k := p.known()
		var members []string
		for id := range k.Instances {
			members = append(members, id)
		}
		sort.Strings(members)
		if len(members) < 2 {
			return
		}
		leaver := p.mkNode(k.Instances[members[0]], "ip-"+members[0])
		p.opDelete([]*v1.Node{leaver})
		time.Sleep(5 * time.Minute) // the terminated instance leaves the Describe answer
		p.opIdx = 2
		p.opRefresh()
		p.opIdx = 3
		p.opIncrease(1) // fleet mode: one new instance is attached
		p.opIdx = 4
		p.opRefresh()
		k2 := p.known()
		var newcomer *v1.Node
		for id, pid := range k2.Instances {
			if _, old := k.Instances[id]; !old {
				newcomer = p.mkNode(pid, "ip-"+id)
			}
		}
		if newcomer == nil || len(p.res.Violations) > 0 {
			return
		}
		p.st.Probe("membership changed at constant group size between two removals")
		p.opIdx = 5
		if pc.K == 0 {
			p.opDelete([]*v1.Node{newcomer})
		} else {
			other := p.mkNode(k2.Instances[members[1]], "ip-"+members[1])
			p.opDelete([]*v1.Node{other, leaver}) // the former member must stop the request after `other`
		}
	case "delete":
		k := p.known()
		var members []string
		for id := range k.Instances {
			members = append(members, id)
		}
		sort.Strings(members)
		var nodes []*v1.Node
		for i := 0; i < pc.Size && i < len(members); i++ {
			nodes = append(nodes, p.mkNode(k.Instances[members[i]], "ip-"+members[i]))
		}
		if pc.ForeignAt >= 0 && pc.ForeignAt <= len(nodes) {
			f := p.mkNode("aws:///us-east-1a/i-other0", "ip-i-other0")
			nodes = append(nodes[:pc.ForeignAt:pc.ForeignAt], append([]*v1.Node{f}, nodes[pc.ForeignAt:]...)...)
		}
		if pc.Failure == "terminate-asg" {
			w.cfg.ForceFault[key(OpTerminateASG, pc.K)] = FErrBefore
		}
		p.opDelete(nodes)
		if pc.K2 > 0 && len(p.res.Violations) == 0 { // then a scale-up in the same scan (no refresh in between)
			p.opIdx = 2
			p.opIncrease(int64(pc.K2))
		}
	}
}
