package harness

// Metamorphic pairs (C11 c11-interference, C12 c12-metamorphic and
// c12-containment): the same run seed executed twice, the two executions
// differing only inside one group; every other group's per-scan journal and
// view must be identical. Keyed choice streams are what make this well defined.

import (
	"encoding/json"
	"fmt"
	"sort"
	"strings"
	"testing"
)

type PairVariant struct {
	Kind  string `json:"kind"`  // "dry" | "world" | "faults"
	Group int    `json:"group"` // index (drawn order) of the varied group
}

func pairMutate(v PairVariant, second bool) (func(*RunCfg), func(*RunCfg) map[string]string) {
	mut := func(c *RunCfg) {
		// pairs are run calm and instantaneous: no fleet mode in the varied
		// group, no latency, no client-side rate limiter, no crashes
		c.Calm, c.FaultP, c.LatencyP, c.CrashP, c.QPS = true, 0, 0, 0, false
		c.NoMislabel = true
		if v.Group >= len(c.Groups) {
			return
		}
		x := c.Groups[v.Group]
		if !x.IsDefault {
			c.StrayExclude = x.Name // the unvaried default group's world must not depend on the varied group's nodes
		}
		x.LaunchTemplateID, x.LaunchTemplateVersion, x.FleetTimeout, x.Lifecycle, x.Overrides = "", "", "", "", nil
		if !second {
			return
		}
		switch v.Kind {
		case "dry":
			x.Dry = !x.Dry
		case "faults":
			c.Calm = false
			c.FaultP = 0.15
			c.FaultOnlyGroup = x.Name
			// faults that take virtual time legitimately shift the later groups' scan instants
			c.Faults[FLatency], c.Faults[FThrottle] = false, false
		}
	}
	salt := func(c *RunCfg) map[string]string {
		if second && v.Kind == "world" && v.Group < len(c.Groups) {
			return map[string]string{c.Groups[v.Group].Name: "#variant"}
		}
		return nil
	}
	return mut, salt
}

func callSig(c *Call) string {
	var b strings.Builder
	fmt.Fprintf(&b, "%s %s", c.Op, c.Target)
	switch c.Op {
	case OpSetDesired:
		fmt.Fprintf(&b, " %d", c.Desired)
	case OpAttach, OpTerminateEC2:
		fmt.Fprintf(&b, " %v", c.IDs)
	case OpPut:
		if c.NodeBody != nil {
			fmt.Fprintf(&b, " %s", taintsString(c.NodeBody.Spec.Taints))
		}
	case OpCreateFleet:
		fmt.Fprintf(&b, " %d", c.FleetTotal)
	}
	if c.Err != "" {
		b.WriteString(" ERR")
	}
	return b.String()
}

func groupSig(gs *GroupScan) []string {
	out := []string{fmt.Sprintf("reached=%v pods=%v nodes=%v", gs.Reached, podNames(gs.Pods), nodeNames(gs.Nodes))}
	for _, c := range gs.Calls {
		if c.Op == OpStatus || c.Op == OpDescribeInst {
			continue // read-only polls: their number/order is not an action on the group
		}
		out = append(out, callSig(c))
	}
	return out
}

// RunPair executes both members and compares the unvaried groups.
func RunPair(t *testing.T, spec RunSpec, v PairVariant, stats *Stats) *RunResult {
	var variedName string
	a := spec
	a.KeepScans = true
	a.AllProps = false
	a.Prop = "~pair" // members report no violations of their own
	a.onCfg = func(c *RunCfg) {
		if v.Group < len(c.Groups) {
			variedName = c.Groups[v.Group].Name
		}
	}
	b := a
	ra := runWithSalt(t, a, v, false, stats)
	rb := runWithSalt(t, b, v, true, newStats())
	res := &RunResult{Seed: spec.Seed, Prop: spec.Prop, ConfigText: ra.ConfigText, Scans: ra.Scans, Lifetimes: ra.Lifetimes, SimSeconds: ra.SimSeconds, LogHash: ra.LogHash + "/" + rb.LogHash, Calm: true}
	// both members draw a key from the same PRNG but may consume different lengths: keep the longer recording
	res.Streams = ra.Streams
	if res.Streams == nil {
		res.Streams = map[string][]uint32{}
	}
	for k, vals := range rb.Streams {
		if len(vals) > len(res.Streams[k]) {
			res.Streams[k] = vals
		}
	}
	if ra.HarnessErr != "" || rb.HarnessErr != "" {
		res.HarnessErr = ra.HarnessErr + rb.HarnessErr
		return res
	}
	if ra.Rejected || rb.Rejected || variedName == "" {
		res.Rejected = true
		return res
	}
	prop, rule := "C12", "c12-metamorphic"
	switch v.Kind {
	case "dry":
		prop, rule = "C11", "c11-interference"
	case "faults":
		rule = "c12-containment"
	}
	n := len(ra.Scanlog)
	if len(rb.Scanlog) < n {
		n = len(rb.Scanlog)
	}
	for i := 0; i < n; i++ {
		sa, sb := ra.Scanlog[i], rb.Scanlog[i]
		for gi := range sa.Groups {
			ga, gb := sa.Groups[gi], sb.Groups[gi]
			if ga.Group == variedName {
				continue
			}
			if ga.Reached && gb.Reached && !ga.TEnter.Equal(gb.TEnter) {
				// the varied group took a different amount of (virtual) time, e.g. a pause before a retry: from
				// here on the two members see the world at different instants and are no longer comparable
				stats.Probe("pair: members drifted apart in time")
				return res
			}
			stats.Check(rule, uint64(len(ga.Calls))<<8|uint64(gi))
			xa, xb := groupSig(ga), groupSig(gb)
			// the actions taken on the group are compared as a multiset: the order in which a code works
			// through, say, a reap batch may legitimately differ from run to run (a Go map in between)
			sort.Strings(xa[1:])
			sort.Strings(xb[1:])
			if strings.Join(xa, "\n") != strings.Join(xb, "\n") {
				// a fatal stop in the varied group legitimately cuts later groups short
				if sa.Outcome.EndsLifetime() || sb.Outcome.EndsLifetime() {
					if sa.Outcome.NotInGroupNode != "" || sb.Outcome.NotInGroupNode != "" || v.Kind == "faults" && (sa.Outcome.Err != "" || sb.Outcome.Err != "") {
						return res
					}
				}
				viol := Violation{Property: prop, Rule: rule, Site: v.Kind, Scan: sa.Index, Life: sa.Life, Group: ga.Group,
					Detail: fmt.Sprintf("varying only group %s (%s) changed what happened to group %s in scan %d", variedName, v.Kind, ga.Group, sa.Index)}
				viol.Excerpt = append(viol.Excerpt, "--- reference run")
				viol.Excerpt = append(viol.Excerpt, clip(xa, 25)...)
				viol.Excerpt = append(viol.Excerpt, "--- variant run")
				viol.Excerpt = append(viol.Excerpt, clip(xb, 25)...)
				res.Violations = append(res.Violations, viol)
				return res
			}
		}
		if sa.Outcome.EndsLifetime() != sb.Outcome.EndsLifetime() {
			return res // lifetimes diverge legitimately from here on (e.g. a fatal stop only one member meets)
		}
	}
	return res
}

func clip(xs []string, n int) []string {
	if len(xs) > n {
		return append(append([]string{}, xs[:n]...), "...")
	}
	return xs
}

func runWithSalt(t *testing.T, spec RunSpec, v PairVariant, second bool, stats *Stats) *RunResult {
	mut, salt := pairMutate(v, second)
	on := spec.onCfg
	spec.Mutate = func(c *RunCfg) {
		mut(c)
		c.saltHook = salt(c)
		if on != nil {
			on(c)
		}
	}
	return RunOne(t, spec, stats)
}

func RunPairReplay(t *testing.T, rf *ReplayFile) *RunResult {
	var v PairVariant
	_ = json.Unmarshal([]byte(rf.Variant), &v)
	spec := RunSpec{Seed: rf.RunSeed, Prop: rf.Property, Tier: rf.Tier, Replay: rf.Streams, MaxScans: rf.MaxScans}
	if spec.Replay == nil && !rf.Generate {
		spec.Replay = map[string][]uint32{}
	}
	return RunPair(t, spec, v, newStats())
}

func sortedKeys(m map[string]int) []string {
	ks := make([]string, 0, len(m))
	for k := range m {
		ks = append(ks, k)
	}
	sort.Strings(ks)
	return ks
}
