package harness

// Swarm configuration: everything about a run that is drawn once (or once
// per lifetime) and written into the replay file as the config text that the
// real decoder and validator are fed.

import (
	"bytes"
	"encoding/json"
	"fmt"
	"strings"
	"time"

	"github.com/atlassian/escalator/pkg/cloudprovider"
	"github.com/atlassian/escalator/pkg/controller"
)

type GroupCfg struct {
	// escalator options (rendered into the config text)
	Name       string
	LabelKey   string
	LabelValue string
	ASG        string
	Min, Max   int
	Dry        bool
	Starve     bool
	Upper, Lower, ScaleUp int
	Slow, Fast int
	Soft, Hard, CoolDown time.Duration
	SoftStr, HardStr, CoolStr string // override rendering (invalid-config draws)
	TaintEffect string
	MaxNodeAge  time.Duration
	LaunchTemplateID string
	LaunchTemplateVersion string
	FleetTimeout string
	Lifecycle   string
	Overrides   []string
	Tagging     bool

	// world side
	Idx          int
	NodeCPU      int64 // millicores
	NodeMem      int64 // bytes
	Hetero       bool
	ASGMin, ASGMax int64
	InitialNodes int
	InitialDesiredSkew int
	AffinityStyle int // 0 selector, 1 affinity In, 2 both, 3 mixed per pod
	IsDefault    bool
	BigGroup     bool
}

type RunCfg struct {
	Groups       []*GroupCfg
	ScanInterval time.Duration
	GlobalDry    bool
	JSON         bool
	QPS          bool
	Calm         bool
	Horizon      int // scans
	MaxLives     int

	FaultP      float64
	LatencyP    float64
	InterleaveP float64
	OperatorP   float64
	CrashP      float64 // per seam call
	BoundaryCrashP float64
	CacheLag    bool
	OddObjects  bool
	Faults      map[string]bool // enabled fault kinds (swarm subset)
	Actors      map[string]bool
	CreationSkew time.Duration
	EdgeBias    float64
	TickEvery   time.Duration
	ReconfigureP float64
	InvalidCfg  bool

	FaultOnlyGroup string            // metamorphic containment pairs: faults only in this group's context
	NoMislabel     bool              // metamorphic pairs: no node is relabelled into another group
	StrayExclude   string            // metamorphic pairs: the default group's pods are never bound to this group's nodes
	saltHook       map[string]string // metamorphic world pairs: per-group stream salt

	// directed overrides (single-fault sweep)
	ForceFault map[string]string // "<group>/<op>#<occ>" -> fault kind
}

// Profile tilts the generator towards the states a property needs. Profiles
// change weights, never oracles.
type Profile struct {
	Name        string
	Groups      []int // weights for 1,2,3 groups
	PDry        float64
	PGlobalDry  float64
	PFleet      float64
	PStarve     float64
	PMaxAge     float64
	PAuto       float64
	PMaxBelow   float64
	PCalm       float64
	PCrash      float64
	POdd        float64
	PNegRates   float64
	PInvalid    float64
	PDefault    float64
	OperatorP   float64
	Interleave  float64
	HorizonLo, HorizonHi int
	PReconfigure float64
	EdgeBias    float64
	ShortCool   float64 // probability that the cool-down is only a few scan intervals
	ShortGrace  float64
	POverMax    float64 // initial node count outside [min,max]
	PForceTaint float64
	PAnnotate   float64
	PCordon     float64
	PExtTaint   float64
	PZeroCreation float64 // node objects with a zero creationTimestamp
	PAsgEdit    float64 // operator edits of the ASG min/max/desired
	PForeignTaint float64 // foreign taints added/removed by other controllers
	PNodeLoss   float64 // spot loss / node object deletion by others
	PStray      float64 // default-group pods bound to other groups' nodes
	PScenario   float64 // a hand-picked hard-to-reach situation instead of a free draw (see scenario())
	PBigGroup   float64 // a group of 22-45 nodes (reap batches above 20)
	PResize     float64 // allocatable of all nodes of a group changes (kubelet reservation rollout)
	FaultBias   map[string]float64 // per-op multiplier of the fault probability
}

func baseProfile() Profile {
	return Profile{
		Name: "base", Groups: []int{5, 3, 2},
		PDry: 0.08, PGlobalDry: 0.03, PFleet: 0.2, PStarve: 0.2, PMaxAge: 0.15, PAuto: 0.15, PMaxBelow: 0.3,
		PCalm: 0.5, PCrash: 0.3, POdd: 0.1, PNegRates: 0.04, PInvalid: 0.03, PDefault: 0.25,
		OperatorP: 0.08, Interleave: 0.05, HorizonLo: 20, HorizonHi: 60, PReconfigure: 0.3, EdgeBias: 0.3,
		ShortCool: 0.6, ShortGrace: 0.7, POverMax: 0.08, PForceTaint: 0.25, PAnnotate: 0.25, PCordon: 0.3, PExtTaint: 0.25, PZeroCreation: 0.03, PAsgEdit: 0.08, PResize: 0.03, PForeignTaint: 0.15, PStray: 0.15, PNodeLoss: 0.08,
	}
}

func profileFor(prop string) Profile {
	p := baseProfile()
	p.Name = prop
	switch prop {
	case "C01":
		p.ShortGrace, p.PExtTaint, p.PCrash, p.PCordon, p.PForceTaint = 0.9, 0.5, 0.5, 0.4, 0.5
		p.HorizonLo, p.HorizonHi = 30, 70
	case "C02":
		p.ShortCool, p.PCordon, p.PForceTaint, p.PExtTaint, p.OperatorP, p.Interleave = 0.85, 0.5, 0.4, 0.4, 0.15, 0.08
		p.PDry, p.PGlobalDry = 0.02, 0
	case "C03":
		p.PAuto, p.PCordon, p.PAsgEdit, p.PForceTaint = 0.35, 0.4, 0.4, 0.35
	case "C04":
		p.PMaxBelow, p.PAuto, p.PAsgEdit, p.PBigGroup, p.PFleet, p.PScenario = 0.6, 0.15, 0.3, 0.2, 0.4, 0.12
		p.FaultBias = map[string]float64{OpAttach: 5}
	case "C05", "C06":
		p.EdgeBias, p.PDry, p.PGlobalDry, p.POdd, p.PResize, p.PNodeLoss, p.ShortCool = 0.5, 0.02, 0, 0.02, 0.2, 0.35, 0.8
	case "C07":
		p.PForceTaint, p.PExtTaint, p.PDry, p.PZeroCreation = 0.6, 0.4, 0.02, 0.1
		p.FaultBias = map[string]float64{OpTerminateASG: 6, OpPut: 2}
	case "C08":
		p.PDry, p.EdgeBias, p.PZeroCreation = 0.02, 0.2, 0.15
	case "C09":
		p.PCordon, p.PForceTaint, p.PAnnotate, p.ShortGrace, p.PStarve = 0.7, 0.4, 0.4, 0.9, 0.4
		p.FaultBias = map[string]float64{OpDelete: 8, OpTerminateASG: 2}
	case "C10":
		p.PAnnotate, p.ShortGrace, p.PForceTaint = 0.7, 0.9, 0.3
		p.FaultBias = map[string]float64{OpTerminateASG: 8, OpDelete: 3}
	case "C11":
		p.PDry, p.PGlobalDry, p.PReconfigure, p.PCrash, p.Groups = 0.5, 0.2, 0.6, 0.5, []int{3, 4, 3}
	case "C12":
		p.Groups, p.PDefault, p.POdd, p.PStray, p.ShortGrace, p.PFleet = []int{0, 5, 5}, 0.5, 0.3, 0.45, 0.9, 0.4
	case "C13":
		p.POdd, p.PDry, p.PResize = 0.3, 0.02, 0.25
	case "C15":
		p.PExtTaint, p.Interleave, p.OperatorP, p.PForeignTaint = 0.5, 0.1, 0.15, 0.6
	case "C17", "C18":
		p.PFleet, p.PDry, p.PGlobalDry = 0.8, 0, 0
	case "C19":
		p.PForceTaint, p.ShortGrace, p.PDry, p.PBigGroup, p.PExtTaint = 0.5, 0.9, 0.02, 0.12, 0.5
		p.FaultBias = map[string]float64{OpTerminateASG: 5, OpDelete: 3, OpDescribeASG: 3}
	case "C20":
		p.POdd, p.PCalm, p.PFleet, p.ShortCool = 0.7, 0.3, 0.3, 0.8
	}
	return p
}

func durStr(d time.Duration) string {
	if d == 0 {
		return ""
	}
	return d.String()
}

// DrawConfig draws the run configuration. Group i draws only from "cfg/<i>".
func DrawConfig(ch *Choices, p Profile, tier string) *RunCfg {
	s := ch.S("cfg")
	rc := &RunCfg{Faults: map[string]bool{}, Actors: map[string]bool{}, ForceFault: map[string]string{}}
	rc.ScanInterval = []time.Duration{30 * time.Second, 10 * time.Second, 60 * time.Second, 15 * time.Second}[s.Pick(4, 3, 3, 1)]
	ng := 1 + s.Pick(p.Groups...)
	rc.JSON = s.Chance(0.3)
	rc.GlobalDry = s.Chance(p.PGlobalDry)
	rc.Calm = !s.Chance(1 - p.PCalm)
	rc.QPS = !rc.Calm && s.Chance(0.3)
	hi := p.HorizonHi
	if tier == "thorough" {
		hi = p.HorizonHi * 3
	}
	rc.Horizon = p.HorizonLo + s.Intn(hi-p.HorizonLo+1)
	rc.MaxLives = 1
	if s.Chance(p.PCrash) {
		rc.MaxLives = 2 + s.Intn(3)
		rc.BoundaryCrashP = []float64{0.02, 0.05, 0.1}[s.Intn(3)]
		if !rc.Calm {
			rc.CrashP = []float64{0, 0.002, 0.01}[s.Intn(3)]
		}
	}
	if !rc.Calm {
		rc.FaultP = []float64{0.01, 0.03, 0.08, 0.15}[s.Pick(3, 4, 2, 1)]
		rc.LatencyP = []float64{0, 0.02, 0.1}[s.Intn(3)]
	}
	rc.InterleaveP = p.Interleave * []float64{0, 1, 2, 4}[s.Pick(2, 4, 2, 1)]
	rc.OperatorP = p.OperatorP * []float64{0, 1, 2, 3}[s.Pick(1, 4, 2, 1)]
	rc.CacheLag = s.Chance(0.6)
	rc.OddObjects = s.Chance(p.POdd)
	rc.EdgeBias = p.EdgeBias * []float64{0, 1, 2}[s.Pick(1, 3, 1)]
	rc.TickEvery = []time.Duration{10 * time.Second, 5 * time.Second, 20 * time.Second}[s.Intn(3)]
	rc.ReconfigureP = p.PReconfigure
	if s.Chance(0.2) {
		rc.CreationSkew = time.Duration(s.Range(-120, 120)) * time.Second
	}
	for _, f := range allFaultKinds {
		rc.Faults[f] = !s.Chance(0.25) // each kind enabled in 75 % of runs
	}
	for _, a := range allActors {
		rc.Actors[a] = !s.Chance(0.2)
	}
	defaultAt := -1
	if s.Chance(p.PDefault) {
		defaultAt = s.Intn(ng)
	}
	order := s.Perm(ng)
	for i := 0; i < ng; i++ {
		rc.Groups = append(rc.Groups, drawGroup(ch, p, rc, order[i], order[i] == defaultAt))
	}
	if s.Chance(p.PScenario) {
		scenario(p.Name, rc, s)
	}
	return rc
}

// scenario pins the first group to a situation that a free draw reaches too rarely.
func scenario(prop string, rc *RunCfg, s *Stream) {
	g := rc.Groups[0]
	switch prop {
	case "C04", "C17":
		// fleet mode, room to grow by far more than 20 nodes, max_nodes well below the cloud maximum,
		// attach calls that fail often: partially attached fleets next to the clamp
		g.LaunchTemplateID, g.LaunchTemplateVersion, g.FleetTimeout = fmt.Sprintf("lt-%d", g.Idx), "1", "30500ms"
		g.Dry, g.BigGroup = false, true
		g.Min, g.Max = s.Intn(2), 40+s.Intn(10)
		g.ASGMin, g.ASGMax = 0, int64(g.Max+30+s.Intn(40))
		g.InitialNodes = 1 + s.Intn(4)
		g.ScaleUp, g.Upper, g.Lower = 70, 45, 30
		g.CoolDown = rc.ScanInterval
		rc.Calm, rc.GlobalDry = false, false
		rc.FaultP = 0.06
		for _, f := range allFaultKinds {
			rc.Faults[f] = f == FErrBefore || f == FErrAfter
		}
	}
}

var allFaultKinds = []string{FErrBefore, FErrAfter, FConflict, FNotFound, FThrottle, FLatency, FStale, FFewer, FErrorsOnly, FErrorsPlus, FNeverReady, FMalformed, FListErr}
var allActors = []string{"workload", "operator", "spot", "asg-edit", "ext-taint", "force-taint", "cordon", "annotate", "relabel", "node-delete", "foreign-taint"}

func drawGroup(ch *Choices, p Profile, rc *RunCfg, idx int, isDefault bool) *GroupCfg {
	s := ch.S(fmt.Sprintf("cfg/%d", idx))
	g := &GroupCfg{Idx: idx, IsDefault: isDefault}
	g.Name = fmt.Sprintf("g%d", idx)
	if isDefault {
		g.Name = controller.DefaultNodeGroup
	}
	if s.Chance(0.5) {
		g.LabelKey = "ng" // shared key, groups differ by value only
	} else {
		g.LabelKey = fmt.Sprintf("ng-%d", idx)
	}
	g.LabelValue = fmt.Sprintf("v%d", idx)
	g.ASG = fmt.Sprintf("asg-%d", idx)
	// thresholds
	switch s.Pick(4, 3, 2, 1) {
	case 0:
		g.ScaleUp, g.Upper, g.Lower = 70, 45, 30
	case 1:
		g.ScaleUp = 3 + s.Intn(98)
		g.Upper = 2 + s.Intn(g.ScaleUp-2)
		g.Lower = 1 + s.Intn(g.Upper-1)
	case 2:
		g.ScaleUp = 100 + s.Intn(51)
		g.Upper = 2 + s.Intn(98)
		g.Lower = 1 + s.Intn(g.Upper-1)
	case 3:
		g.ScaleUp, g.Upper, g.Lower = 3, 2, 1
	}
	g.Slow = []int{1, 0, 2, 3}[s.Pick(4, 2, 2, 1)]
	g.Fast = g.Slow + []int{1, 0, 2, 5, 20}[s.Pick(4, 2, 2, 1, 1)]
	if s.Chance(p.PNegRates) {
		g.Slow = -(1 + s.Intn(3))
		g.Fast = g.Slow + s.Intn(3)
	}
	g.Min = []int{1, 0, 2, 3}[s.Pick(4, 3, 2, 1)]
	g.Max = g.Min + 1 + s.Intn(10)
	auto := s.Chance(p.PAuto)
	g.ASGMin = int64(s.Intn(g.Min + 1))
	g.ASGMax = int64(g.Max)
	if s.Chance(p.PMaxBelow) {
		g.ASGMax = int64(g.Max + 1 + s.Intn(20))
	} else if s.Chance(0.15) && g.Max > 1 {
		g.ASGMax = int64(1 + s.Intn(g.Max-1))
		if g.ASGMax <= g.ASGMin {
			g.ASGMax = g.ASGMin + 1
		}
	}
	if auto {
		g.ASGMin, g.ASGMax = int64(g.Min), int64(g.Max)
		g.Min, g.Max = 0, 0
	}
	iv := rc.ScanInterval
	mult := func(short float64, shortSet, longSet []int) time.Duration {
		if s.Chance(short) {
			return time.Duration(shortSet[s.Intn(len(shortSet))]) * iv
		}
		return time.Duration(longSet[s.Intn(len(longSet))]) * iv
	}
	g.Soft = mult(p.ShortGrace, []int{1, 2, 3, 5}, []int{10, 20, 60})
	g.Hard = g.Soft + mult(p.ShortGrace, []int{1, 2, 4, 8}, []int{10, 30, 120})
	g.CoolDown = mult(p.ShortCool, []int{1, 2, 3, 5, 10}, []int{20, 40})
	if s.Chance(0.15) { // not a multiple of the scan interval
		g.CoolDown = g.CoolDown/2 + 7*time.Second
	}
	g.TaintEffect = []string{"", "NoSchedule", "NoExecute", "PreferNoSchedule"}[s.Pick(3, 2, 2, 2)]
	g.Dry = s.Chance(p.PDry)
	g.Starve = s.Chance(p.PStarve)
	if s.Chance(p.PMaxAge) {
		g.MaxNodeAge = time.Duration(5+s.Intn(60)) * iv
	}
	if s.Chance(p.PFleet) {
		g.LaunchTemplateID = fmt.Sprintf("lt-%d", idx)
		g.LaunchTemplateVersion = []string{"1", "$Latest"}[s.Intn(2)]
		g.Lifecycle = []string{"", "on-demand", "spot"}[s.Intn(3)]
		g.FleetTimeout = []string{"", "4500ms", "30500ms", "90500ms"}[s.Intn(4)] // never a whole number of seconds: the provider's 1 s ticker and its deadline timer must not fire at the same instant (Go's select would pick at random)
		g.Overrides = [][]string{nil, {"m5.large"}, {"c5.xlarge", "m5.xlarge"}}[s.Intn(3)]
		g.Tagging = s.Chance(0.3)
	} else {
		g.Tagging = s.Chance(0.15)
	}
	g.NodeCPU = []int64{4000, 1000, 2000, 7910, 16000, 64000, 500}[s.Pick(4, 2, 2, 2, 2, 1, 1)]
	g.NodeMem = []int64{16 << 30, 2 << 30, 4 << 30, 8053063680, 64 << 30, 256 << 30, 1000000000}[s.Pick(4, 2, 2, 2, 2, 1, 1)]
	g.Hetero = s.Chance(0.1)
	effMin, effMax := g.Min, g.Max
	if auto {
		effMin, effMax = int(g.ASGMin), int(g.ASGMax)
	}
	span := effMax - effMin
	if span > 8 {
		span = 8
	}
	g.InitialNodes = effMin + s.Intn(span+1)
	if s.Chance(p.POverMax) {
		if s.Chance(0.5) {
			g.InitialNodes = effMax + 1 + s.Intn(2)
		} else if effMin > 0 {
			g.InitialNodes = s.Intn(effMin)
		}
	}
	if s.Chance(0.2) {
		g.InitialNodes = 0
	}
	if s.Chance(p.PBigGroup) && !auto {
		g.Min = s.Intn(3)
		g.Max = 30 + s.Intn(16)
		g.ASGMin, g.ASGMax = int64(s.Intn(g.Min+1)), int64(g.Max)
		g.InitialNodes = 22 + s.Intn(g.Max-21)
		if s.Chance(0.5) { // a big group that is still small: scale-ups of more than 20 nodes
			g.InitialNodes = 1 + s.Intn(5)
			g.Max = 40 + s.Intn(20)
			g.ASGMax = int64(g.Max + []int{0, 5, 40}[s.Intn(3)])
		}
		g.BigGroup = true
	}
	if s.Chance(0.1) {
		g.InitialDesiredSkew = s.Range(-1, 2)
	}
	g.AffinityStyle = s.Pick(4, 2, 1, 3)
	if s.Chance(p.PInvalid) { // deliberately invalid; the real validator must reject it
		rc.InvalidCfg = true
		switch s.Intn(8) {
		case 0:
			g.Lower, g.Upper = g.Upper, g.Lower
		case 1:
			g.Upper = g.ScaleUp
		case 2:
			g.Slow, g.Fast = g.Fast+1, g.Slow
		case 3:
			g.SoftStr, g.HardStr = durStr(g.Hard), durStr(g.Soft)
		case 4:
			g.CoolStr = "0s"
		case 5:
			g.Min, g.Max = 5, 5
		case 6:
			g.TaintEffect = "NoTaint"
		case 7:
			g.SoftStr = "ten minutes"
		}
	}
	return g
}

func (g *GroupCfg) optionsMap() map[string]interface{} {
	m := map[string]interface{}{
		"name": g.Name, "label_key": g.LabelKey, "label_value": g.LabelValue, "cloud_provider_group_name": g.ASG,
		"min_nodes": g.Min, "max_nodes": g.Max, "dry_mode": g.Dry, "scale_on_starve": g.Starve,
		"taint_upper_capacity_threshold_percent": g.Upper, "taint_lower_capacity_threshold_percent": g.Lower,
		"scale_up_threshold_percent": g.ScaleUp, "slow_node_removal_rate": g.Slow, "fast_node_removal_rate": g.Fast,
		"soft_delete_grace_period": ifs(g.SoftStr != "", g.SoftStr, durStr(g.Soft)),
		"hard_delete_grace_period": ifs(g.HardStr != "", g.HardStr, durStr(g.Hard)),
		"scale_up_cool_down_period": ifs(g.CoolStr != "", g.CoolStr, durStr(g.CoolDown)),
	}
	if g.TaintEffect != "" {
		m["taint_effect"] = g.TaintEffect
	}
	if g.MaxNodeAge > 0 {
		m["max_node_age"] = durStr(g.MaxNodeAge)
	}
	aws := map[string]interface{}{}
	if g.LaunchTemplateID != "" {
		aws["launch_template_id"] = g.LaunchTemplateID
		aws["launch_template_version"] = g.LaunchTemplateVersion
		if g.FleetTimeout != "" {
			aws["fleet_instance_ready_timeout"] = g.FleetTimeout
		}
		if g.Lifecycle != "" {
			aws["lifecycle"] = g.Lifecycle
		}
		if len(g.Overrides) > 0 {
			aws["instance_type_overrides"] = g.Overrides
		}
	}
	if g.Tagging {
		aws["resource_tagging"] = true
	}
	m["aws"] = aws
	return m
}

// ConfigText renders the node-group file as YAML or JSON.
func (rc *RunCfg) ConfigText() string {
	var groups []map[string]interface{}
	for _, g := range rc.Groups {
		groups = append(groups, g.optionsMap())
	}
	if rc.JSON {
		b, _ := json.MarshalIndent(map[string]interface{}{"node_groups": groups}, "", " ")
		return string(b)
	}
	var b bytes.Buffer
	b.WriteString("node_groups:\n")
	keys := []string{"name", "label_key", "label_value", "cloud_provider_group_name", "min_nodes", "max_nodes", "dry_mode", "scale_on_starve",
		"taint_upper_capacity_threshold_percent", "taint_lower_capacity_threshold_percent", "scale_up_threshold_percent",
		"slow_node_removal_rate", "fast_node_removal_rate", "soft_delete_grace_period", "hard_delete_grace_period",
		"scale_up_cool_down_period", "taint_effect", "max_node_age"}
	for _, m := range groups {
		first := true
		for _, k := range keys {
			v, ok := m[k]
			if !ok {
				continue
			}
			pre := "    "
			if first {
				pre = "  - "
				first = false
			}
			switch x := v.(type) {
			case string:
				fmt.Fprintf(&b, "%s%s: %q\n", pre, k, x)
			default:
				fmt.Fprintf(&b, "%s%s: %v\n", pre, k, x)
			}
		}
		aws := m["aws"].(map[string]interface{})
		if len(aws) == 0 {
			b.WriteString("    aws: {}\n")
			continue
		}
		b.WriteString("    aws:\n")
		for _, k := range []string{"launch_template_id", "launch_template_version", "fleet_instance_ready_timeout", "lifecycle", "resource_tagging"} {
			if v, ok := aws[k]; ok {
				switch x := v.(type) {
				case string:
					fmt.Fprintf(&b, "      %s: %q\n", k, x)
				default:
					fmt.Fprintf(&b, "      %s: %v\n", k, x)
				}
			}
		}
		if ov, ok := aws["instance_type_overrides"]; ok {
			b.WriteString("      instance_type_overrides:\n")
			for _, t := range ov.([]string) {
				fmt.Fprintf(&b, "        - %q\n", t)
			}
		}
	}
	return b.String()
}

// LoadOptions mirrors cmd/main.go setupNodeGroups + setupCloudProvider: real
// decoder, real validator, option plumbing into the cloud-provider config.
func LoadOptions(text string) ([]controller.NodeGroupOptions, []cloudprovider.NodeGroupConfig, []string, error) {
	ngs, err := controller.UnmarshalNodeGroupOptions(strings.NewReader(text))
	if err != nil {
		return nil, nil, nil, err
	}
	var problems []string
	for _, ng := range ngs {
		for _, e := range controller.ValidateNodeGroup(ng) {
			problems = append(problems, ng.Name+": "+e.Error())
		}
	}
	var cfgs []cloudprovider.NodeGroupConfig
	for i := range ngs {
		n := &ngs[i]
		cfgs = append(cfgs, cloudprovider.NodeGroupConfig{
			Name:    n.Name,
			GroupID: n.CloudProviderGroupName,
			AWSConfig: cloudprovider.AWSNodeGroupConfig{
				LaunchTemplateID:          n.AWS.LaunchTemplateID,
				LaunchTemplateVersion:     n.AWS.LaunchTemplateVersion,
				FleetInstanceReadyTimeout: n.AWS.FleetInstanceReadyTimeoutDuration(),
				Lifecycle:                 n.AWS.Lifecycle,
				InstanceTypeOverrides:     n.AWS.InstanceTypeOverrides,
				ResourceTagging:           n.AWS.ResourceTagging,
			},
		})
	}
	return ngs, cfgs, problems, nil
}
