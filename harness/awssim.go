package harness

// Stateful simulated AWS (Auto Scaling + EC2) behind the SDK interfaces.
// Unimplemented SDK methods are the embedded nil interface: reaching one panics.

import (
	"errors"
	"fmt"
	"sort"
	"strings"
	"time"

	awsapi "github.com/aws/aws-sdk-go/aws"
	"github.com/aws/aws-sdk-go/aws/awserr"
	"github.com/aws/aws-sdk-go/service/autoscaling"
	"github.com/aws/aws-sdk-go/service/autoscaling/autoscalingiface"
	"github.com/aws/aws-sdk-go/service/ec2"
	"github.com/aws/aws-sdk-go/service/ec2/ec2iface"
)

type Inst struct {
	ID       string
	AZ       string
	ASG      string // "" = not attached
	Life     string // autoscaling lifecycle: Pending, InService, Terminating
	EC2State string // pending, running, shutting-down, terminated
	Launch   time.Time
	ReadyAt  time.Time // EC2State turns running at this instant (zero = never)
	GoneAt   time.Time // a terminating instance leaves Describe output at this instant
	Fleet    bool
	Owner    string // world group
	NodeName string // name of the Node object this instance registers as (private-IP style, recycled)
}

type ASG struct {
	Name     string
	Min, Max int64
	Desired  int64
	VPCZone  string
	Tags     map[string]string
	Owner    string
	snap     *autoscaling.Group // stale snapshot for the "stale" fault
}

type AWSSim struct {
	w     *World
	asgs  map[string]*ASG
	insts map[string]*Inst
}

func newAWS(w *World) *AWSSim {
	return &AWSSim{w: w, asgs: map[string]*ASG{}, insts: map[string]*Inst{}}
}

type asgAPI struct {
	autoscalingiface.AutoScalingAPI
	a *AWSSim
}
type ec2API struct {
	ec2iface.EC2API
	a *AWSSim
}

func (a *AWSSim) providerID(i *Inst) string { return fmt.Sprintf("aws:///%s/%s", i.AZ, i.ID) }

func (a *AWSSim) sortedInstIDs() []string {
	ids := make([]string, 0, len(a.insts))
	for id := range a.insts {
		ids = append(ids, id)
	}
	sort.Strings(ids)
	return ids
}

// members returns the instances Describe would list for the ASG now.
func (a *AWSSim) members(name string) []*Inst {
	var out []*Inst
	now := time.Now()
	for _, id := range a.sortedInstIDs() {
		i := a.insts[id]
		if i.ASG != name {
			continue
		}
		if i.Life == "Terminating" && !i.GoneAt.IsZero() && !now.Before(i.GoneAt) {
			continue
		}
		out = append(out, i)
	}
	return out
}

// live counts instances that count towards desired capacity.
func (a *AWSSim) live(name string) int64 {
	var n int64
	for _, i := range a.insts {
		if i.ASG == name && i.Life != "Terminating" {
			n++
		}
	}
	return n
}

func (a *AWSSim) describeGroup(g *ASG) *autoscaling.Group {
	grp := &autoscaling.Group{
		AutoScalingGroupName: awsapi.String(g.Name),
		MinSize:              awsapi.Int64(g.Min),
		MaxSize:              awsapi.Int64(g.Max),
		DesiredCapacity:      awsapi.Int64(g.Desired),
		VPCZoneIdentifier:    awsapi.String(g.VPCZone),
	}
	keys := make([]string, 0, len(g.Tags))
	for k := range g.Tags {
		keys = append(keys, k)
	}
	sort.Strings(keys)
	for _, k := range keys {
		grp.Tags = append(grp.Tags, &autoscaling.TagDescription{Key: awsapi.String(k), Value: awsapi.String(g.Tags[k]), ResourceId: awsapi.String(g.Name)})
	}
	for _, i := range a.members(g.Name) {
		grp.Instances = append(grp.Instances, &autoscaling.Instance{
			InstanceId: awsapi.String(i.ID), AvailabilityZone: awsapi.String(i.AZ), LifecycleState: awsapi.String(i.Life),
		})
	}
	return grp
}

func awsErr(code, msg string) error { return awserr.New(code, msg, nil) }

// ---- Auto Scaling ---------------------------------------------------------

func (s *asgAPI) DescribeAutoScalingGroups(in *autoscaling.DescribeAutoScalingGroupsInput) (*autoscaling.DescribeAutoScalingGroupsOutput, error) {
	a := s.a
	w := a.w
	names := awsapi.StringValueSlice(in.AutoScalingGroupNames)
	sorted := append([]string(nil), names...)
	sort.Strings(sorted)
	c := w.beginCall(OpDescribeASG, strings.Join(sorted, ","))
	c.ASGNames = sorted
	fault := w.drawFault(c)
	if fault == FErrBefore || fault == FErrAfter {
		c.Fault = FErrBefore
		w.endCall(c, false, "RequestError: sim injected describe failure")
		return nil, awsErr("RequestError", "sim: injected DescribeAutoScalingGroups failure")
	}
	out := &autoscaling.DescribeAutoScalingGroupsOutput{}
	for idx, n := range sorted {
		g, ok := a.asgs[n]
		if !ok {
			continue
		}
		if fault == FFewer && idx == len(sorted)-1 {
			continue
		}
		cur := a.describeGroup(g)
		if fault == FStale && g.snap != nil {
			out.AutoScalingGroups = append(out.AutoScalingGroups, g.snap)
		} else {
			out.AutoScalingGroups = append(out.AutoScalingGroups, cur)
		}
		g.snap = cur
	}
	w.noteDescribe(c, out)
	w.endCall(c, false, "")
	return out, nil
}

func (s *asgAPI) SetDesiredCapacity(in *autoscaling.SetDesiredCapacityInput) (*autoscaling.SetDesiredCapacityOutput, error) {
	a := s.a
	w := a.w
	name := awsapi.StringValue(in.AutoScalingGroupName)
	c := w.beginCall(OpSetDesired, name)
	c.Desired = awsapi.Int64Value(in.DesiredCapacity)
	fault := w.drawFault(c)
	if fault == FErrBefore {
		w.endCall(c, false, "ServiceUnavailable: sim injected")
		return nil, awsErr("ServiceUnavailable", "sim: injected SetDesiredCapacity failure")
	}
	g, ok := a.asgs[name]
	if !ok {
		w.endCall(c, false, "ValidationError: group not found")
		return nil, awsErr("ValidationError", "AutoScalingGroup name not found - null")
	}
	if c.Desired > g.Max {
		w.endCall(c, false, "ValidationError: above max")
		return nil, awsErr("ValidationError", fmt.Sprintf("New SetDesiredCapacity value %d is above max value %d for the AutoScalingGroup.", c.Desired, g.Max))
	}
	if c.Desired < g.Min {
		w.endCall(c, false, "ValidationError: below min")
		return nil, awsErr("ValidationError", fmt.Sprintf("New SetDesiredCapacity value %d is below min value %d for the AutoScalingGroup.", c.Desired, g.Min))
	}
	g.Desired = c.Desired
	w.onASGChanged(g)
	if fault == FErrAfter {
		w.endCall(c, true, "RequestError: sim connection lost after apply")
		return nil, awsErr("RequestError", "sim: connection lost (request was applied)")
	}
	w.endCall(c, true, "")
	return &autoscaling.SetDesiredCapacityOutput{}, nil
}

func (s *asgAPI) TerminateInstanceInAutoScalingGroup(in *autoscaling.TerminateInstanceInAutoScalingGroupInput) (*autoscaling.TerminateInstanceInAutoScalingGroupOutput, error) {
	a := s.a
	w := a.w
	id := awsapi.StringValue(in.InstanceId)
	c := w.beginCall(OpTerminateASG, id)
	c.IDs = []string{id}
	if i, ok := a.insts[id]; ok && i.NodeName != "" && w.ctx != "" {
		if w.lastTerminateNode == nil {
			w.lastTerminateNode = map[string]string{}
		}
		w.lastTerminateNode[w.ctx] = i.NodeName
	}
	c.DecrementSet = in.ShouldDecrementDesiredCapacity != nil
	c.Decrement = awsapi.BoolValue(in.ShouldDecrementDesiredCapacity)
	fault := w.drawFault(c)
	if fault == FErrBefore {
		w.endCall(c, false, "ServiceUnavailable: sim injected")
		return nil, awsErr("ServiceUnavailable", "sim: injected TerminateInstanceInAutoScalingGroup failure")
	}
	i, ok := a.insts[id]
	if !ok || i.ASG == "" || i.Life == "Terminating" && !i.GoneAt.IsZero() && !time.Now().Before(i.GoneAt) {
		w.endCall(c, false, "ValidationError: instance not found")
		return nil, awsErr("ValidationError", "Instance Id not found - No managed instance found for instance ID: "+id)
	}
	g := a.asgs[i.ASG]
	if i.Life == "Terminating" && w.faultStream(c).Chance(0.5) {
		// what AWS answers for an instance that is already terminating is not pinned down by its documentation:
		// both "accepted, nothing more to do" and a ValidationError are explored
		w.endCall(c, false, "ValidationError: instance is already terminating")
		return nil, awsErr("ValidationError", "Instance "+id+" is not in a valid state for termination")
	}
	if i.Life != "Terminating" {
		if c.Decrement && g.Desired-1 < g.Min {
			w.endCall(c, false, "ValidationError: would violate min size")
			return nil, awsErr("ValidationError", "Currently, desiredSize equals minSize. Terminating instance without replacement will violate group's min size constraint.")
		}
		i.Life = "Terminating"
		i.EC2State = "shutting-down"
		i.GoneAt = time.Now().Add(w.drawGone(i))
		if c.Decrement {
			g.Desired--
		}
		w.onASGChanged(g)
		w.onInstanceTerminated(i)
	}
	if fault == FErrAfter {
		w.endCall(c, true, "RequestError: sim connection lost after apply")
		return nil, awsErr("RequestError", "sim: connection lost (request was applied)")
	}
	w.endCall(c, true, "")
	return &autoscaling.TerminateInstanceInAutoScalingGroupOutput{Activity: &autoscaling.Activity{
		Description: awsapi.String("Terminating EC2 instance: " + id), AutoScalingGroupName: awsapi.String(g.Name)}}, nil
}

func (s *asgAPI) AttachInstances(in *autoscaling.AttachInstancesInput) (*autoscaling.AttachInstancesOutput, error) {
	a := s.a
	w := a.w
	name := awsapi.StringValue(in.AutoScalingGroupName)
	ids := awsapi.StringValueSlice(in.InstanceIds)
	c := w.beginCall(OpAttach, name)
	c.IDs = ids
	fault := w.drawFault(c)
	if fault == FErrBefore {
		w.endCall(c, false, "ServiceUnavailable: sim injected")
		return nil, awsErr("ServiceUnavailable", "sim: injected AttachInstances failure")
	}
	g, ok := a.asgs[name]
	if !ok {
		w.endCall(c, false, "ValidationError: group not found")
		return nil, awsErr("ValidationError", "AutoScalingGroup name not found - null")
	}
	if len(ids) > 20 {
		w.endCall(c, false, "ValidationError: more than 20 ids")
		return nil, awsErr("ValidationError", "1 validation error detected: Value at 'instanceIds' failed to satisfy constraint: Member must have length less than or equal to 20")
	}
	if len(ids) == 0 {
		w.endCall(c, false, "ValidationError: no ids")
		return nil, awsErr("ValidationError", "At least one instance id is required")
	}
	if g.Desired+int64(len(ids)) > g.Max {
		w.endCall(c, false, "ValidationError: above max")
		return nil, awsErr("ValidationError", "Attaching instances would exceed the max size of the AutoScalingGroup")
	}
	for _, id := range ids {
		i, ok := a.insts[id]
		if !ok || i.EC2State != "running" || i.ASG != "" {
			w.endCall(c, false, "ValidationError: instance not attachable")
			return nil, awsErr("ValidationError", "Instance "+id+" is not in correct state")
		}
	}
	for _, id := range ids {
		i := a.insts[id]
		i.ASG = name
		i.Life = "InService"
		i.Owner = g.Owner
		w.onInstanceInService(i)
	}
	g.Desired += int64(len(ids))
	w.onASGChanged(g)
	if fault == FErrAfter {
		w.endCall(c, true, "RequestError: sim connection lost after apply")
		return nil, awsErr("RequestError", "sim: connection lost (request was applied)")
	}
	w.endCall(c, true, "")
	return &autoscaling.AttachInstancesOutput{}, nil
}

func (s *asgAPI) CreateOrUpdateTags(in *autoscaling.CreateOrUpdateTagsInput) (*autoscaling.CreateOrUpdateTagsOutput, error) {
	a := s.a
	w := a.w
	target := ""
	if len(in.Tags) > 0 {
		target = awsapi.StringValue(in.Tags[0].ResourceId)
	}
	c := w.beginCall(OpTags, target)
	fault := w.drawFault(c)
	if fault == FErrBefore || fault == FErrAfter {
		c.Fault = FErrBefore
		w.endCall(c, false, "ServiceUnavailable: sim injected")
		return nil, awsErr("ServiceUnavailable", "sim: injected CreateOrUpdateTags failure")
	}
	for _, t := range in.Tags {
		if g, ok := a.asgs[awsapi.StringValue(t.ResourceId)]; ok {
			g.Tags[awsapi.StringValue(t.Key)] = awsapi.StringValue(t.Value)
		}
	}
	w.endCall(c, true, "")
	return &autoscaling.CreateOrUpdateTagsOutput{}, nil
}

// ---- EC2 --------------------------------------------------------------------

func (s *ec2API) CreateFleet(in *ec2.CreateFleetInput) (*ec2.CreateFleetOutput, error) {
	a := s.a
	w := a.w
	c := w.beginCall(OpCreateFleet, w.ctx)
	c.FleetType = awsapi.StringValue(in.Type)
	c.FleetMin, c.FleetOther = -1, -1
	if in.TargetCapacitySpecification != nil {
		c.FleetTotal = awsapi.Int64Value(in.TargetCapacitySpecification.TotalTargetCapacity)
		c.FleetLifecycle = awsapi.StringValue(in.TargetCapacitySpecification.DefaultTargetCapacityType)
	}
	var od, spot int64 = -1, -1
	if in.OnDemandOptions != nil && in.OnDemandOptions.MinTargetCapacity != nil {
		od = *in.OnDemandOptions.MinTargetCapacity
	}
	if in.SpotOptions != nil && in.SpotOptions.MinTargetCapacity != nil {
		spot = *in.SpotOptions.MinTargetCapacity
	}
	if c.FleetLifecycle == "spot" {
		c.FleetMin, c.FleetOther = spot, od
	} else {
		c.FleetMin, c.FleetOther = od, spot
	}
	for _, ltc := range in.LaunchTemplateConfigs {
		c.FleetOverrides += len(ltc.Overrides)
	}
	fault := w.drawFault(c)
	if fault == FErrBefore {
		w.endCall(c, false, "InsufficientInstanceCapacity: sim injected")
		return nil, awsErr("InsufficientInstanceCapacity", "sim: injected CreateFleet failure")
	}
	out := &ec2.CreateFleetOutput{FleetId: awsapi.String("fleet-sim")}
	if fault == FErrorsOnly {
		out.Errors = []*ec2.CreateFleetError{{ErrorCode: awsapi.String("InsufficientInstanceCapacity"), ErrorMessage: awsapi.String("sim: no capacity")}}
		w.endCall(c, false, "") // the API call itself succeeded; the provider must read Errors
		return out, nil
	}
	n := c.FleetTotal
	if n < 0 {
		n = 0
	}
	gw := w.groupByName(w.ctx)
	ids := make([]*string, 0, n)
	for j := int64(0); j < n; j++ {
		i := w.newInstance(gw, "", true)
		c.IDs = append(c.IDs, i.ID)
		ids = append(ids, awsapi.String(i.ID))
	}
	// split the ids over 1..3 CreateFleetInstance entries (per type/AZ, as real fleets do)
	parts := 1 + w.faultStream(c).Intn(3)
	if int64(parts) > n {
		parts = int(n)
	}
	if parts < 1 {
		parts = 1
	}
	per := (len(ids) + parts - 1) / parts
	for p := 0; p < parts && p*per < len(ids); p++ {
		hi := (p + 1) * per
		if hi > len(ids) {
			hi = len(ids)
		}
		out.Instances = append(out.Instances, &ec2.CreateFleetInstance{InstanceIds: ids[p*per : hi]})
	}
	if fault == FErrorsPlus {
		out.Errors = []*ec2.CreateFleetError{{ErrorCode: awsapi.String("InsufficientInstanceCapacity"), ErrorMessage: awsapi.String("sim: partial pool failure")}}
	}
	w.endCall(c, true, "")
	return out, nil
}

func (s *ec2API) DescribeInstanceStatusPages(in *ec2.DescribeInstanceStatusInput, fn func(*ec2.DescribeInstanceStatusOutput, bool) bool) error {
	a := s.a
	w := a.w
	ids := awsapi.StringValueSlice(in.InstanceIds)
	c := w.beginCall(OpStatus, w.ctx)
	c.IDs = ids
	fault := w.drawFault(c)
	if fault == FErrBefore {
		w.endCall(c, false, "RequestLimitExceeded: sim injected")
		return awsErr("RequestLimitExceeded", "sim: injected DescribeInstanceStatus failure")
	}
	if len(ids) > 100 {
		// EC2: "Maximum 100 explicitly specified instance IDs"
		w.endCall(c, false, "InvalidParameterValue: more than 100 explicitly specified instance ids")
		return awsErr("InvalidParameterValue", "sim: at most 100 explicitly specified instance IDs per DescribeInstanceStatus call")
	}
	includeAll := awsapi.BoolValue(in.IncludeAllInstances)
	now := time.Now()
	page := 1 + w.faultStream(c).Intn(len(ids)+1)
	if page > 100 {
		page = 100
	}
	for lo := 0; lo < len(ids); lo += page {
		hi := lo + page
		if hi > len(ids) {
			hi = len(ids)
		}
		out := &ec2.DescribeInstanceStatusOutput{}
		for _, id := range ids[lo:hi] {
			st := "pending"
			if i, ok := a.insts[id]; ok {
				if i.EC2State == "pending" && !i.ReadyAt.IsZero() && !now.Before(i.ReadyAt) {
					i.EC2State = "running"
				}
				st = i.EC2State
			}
			if !includeAll && st != "running" {
				continue // without IncludeAllInstances only running instances are described
			}
			out.InstanceStatuses = append(out.InstanceStatuses, &ec2.InstanceStatus{InstanceId: awsapi.String(id), InstanceState: &ec2.InstanceState{Name: awsapi.String(st)}})
		}
		if !fn(out, hi == len(ids)) {
			break
		}
	}
	if len(ids) == 0 {
		fn(&ec2.DescribeInstanceStatusOutput{}, true)
	}
	w.endCall(c, false, "")
	return nil
}

func (s *ec2API) DescribeInstances(in *ec2.DescribeInstancesInput) (*ec2.DescribeInstancesOutput, error) {
	a := s.a
	w := a.w
	ids := awsapi.StringValueSlice(in.InstanceIds)
	t := ""
	if len(ids) > 0 {
		t = ids[0]
	}
	c := w.beginCall(OpDescribeInst, t)
	c.IDs = ids
	fault := w.drawFault(c)
	if fault == FErrBefore {
		w.endCall(c, false, "RequestLimitExceeded: sim injected")
		return nil, awsErr("RequestLimitExceeded", "sim: injected DescribeInstances failure")
	}
	out := &ec2.DescribeInstancesOutput{}
	mk := func(id string) *ec2.Reservation {
		lt := time.Now()
		if i, ok := a.insts[id]; ok {
			lt = i.Launch
		}
		state := "running"
		if i, ok := a.insts[id]; ok && i.EC2State != "" {
			state = i.EC2State
		}
		return &ec2.Reservation{Instances: []*ec2.Instance{{InstanceId: awsapi.String(id), LaunchTime: &lt, State: &ec2.InstanceState{Name: awsapi.String(state)}}}}
	}
	switch fault {
	case FMalformed:
		if w.faultStream(c).Chance(0.5) {
			out.Reservations = []*ec2.Reservation{mk(t), mk(t)}
		}
	default:
		for _, id := range ids {
			if _, ok := a.insts[id]; ok {
				out.Reservations = append(out.Reservations, mk(id))
			}
		}
	}
	w.endCall(c, false, "")
	return out, nil
}

func (s *ec2API) TerminateInstances(in *ec2.TerminateInstancesInput) (*ec2.TerminateInstancesOutput, error) {
	a := s.a
	w := a.w
	ids := awsapi.StringValueSlice(in.InstanceIds)
	c := w.beginCall(OpTerminateEC2, w.ctx)
	c.IDs = ids
	fault := w.drawFault(c)
	if fault == FErrBefore {
		w.endCall(c, false, "RequestLimitExceeded: sim injected")
		return nil, awsErr("RequestLimitExceeded", "sim: injected TerminateInstances failure")
	}
	if len(ids) > 1000 {
		w.endCall(c, false, "InvalidParameterValue: more than 1000 ids")
		return nil, awsErr("InvalidParameterValue", "sim: at most 1000 instance ids per TerminateInstances call")
	}
	for _, id := range ids {
		if i, ok := a.insts[id]; ok {
			i.EC2State = "terminated"
			if i.ASG != "" && i.Life != "Terminating" {
				i.Life = "Terminating"
				i.GoneAt = time.Now()
				w.onInstanceTerminated(i)
			}
		}
	}
	if fault == FErrAfter {
		w.endCall(c, true, "RequestError: sim connection lost after apply")
		return nil, awsErr("RequestError", "sim: connection lost (request was applied)")
	}
	w.endCall(c, true, "")
	return &ec2.TerminateInstancesOutput{}, nil
}

var errSimUnused = errors.New("unused")
