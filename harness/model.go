package harness

import (
	"fmt"
	"sort"
	"strings"
	"time"

	v1 "k8s.io/api/core/v1"
)

// ---- journal -------------------------------------------------------------

// Ops recorded in the journal.
const (
	OpGet          = "k8s.get"
	OpPut          = "k8s.put"
	OpDelete       = "k8s.delete"
	OpPatch        = "k8s.patch"
	OpDescribeASG  = "asg.describe"
	OpSetDesired   = "asg.set-desired"
	OpTerminateASG = "asg.terminate"
	OpAttach       = "asg.attach"
	OpTags         = "asg.tags"
	OpCreateFleet  = "ec2.create-fleet"
	OpStatus       = "ec2.status"
	OpDescribeInst = "ec2.describe"
	OpTerminateEC2 = "ec2.terminate"
	OpListPods     = "cache.list-pods"
	OpListNodes    = "cache.list-nodes"
)

// Fault kinds (value of Call.Fault).
const (
	FNone      = ""
	FErrBefore = "err-before" // call fails, not applied
	FErrAfter  = "err-after"  // call applied, caller told it failed
	FConflict  = "409"
	FNotFound  = "404"
	FThrottle  = "429"
	FLatency   = "latency"
	FStale     = "stale"      // Describe answers with an older snapshot
	FFewer     = "fewer"      // Describe answers with fewer groups than asked
	FErrorsOnly = "fleet-errors-only"
	FErrorsPlus = "fleet-errors+instances"
	FNeverReady = "never-ready"
	FMalformed  = "malformed"
	FListErr    = "list-error"
	FCrashBefore = "crash-before"
	FCrashAfter  = "crash-after"
)

func isMutating(op string) bool {
	switch op {
	case OpPut, OpPatch, OpDelete, OpSetDesired, OpTerminateASG, OpAttach, OpCreateFleet, OpTerminateEC2:
		return true
	}
	return false
}

// KnownASG is the oracle's model of what escalator is in a position to know
// about one ASG: the last Describe answer served to a refresh/build in this
// lifetime, adjusted by escalator's own acknowledged writes since.
type KnownASG struct {
	Valid     bool
	Min, Max  int64
	Desired   int64
	Instances map[string]string // instance id -> provider id
	// Ambiguous: since the last Refresh the code was served a describe answer for this group that says
	// something else than this model. Whether the provider took it over (a provider is free to look again
	// before it acts) cannot be seen from outside, so what "the current desired size / membership" is for
	// the code is not known until the next Refresh: snapshots are handed out as not Valid.
	Ambiguous bool
	// AmbiguousMembers: the same for the member list alone (sizes agreed): only rules about membership stand back.
	AmbiguousMembers bool
}

func (k *KnownASG) clone() *KnownASG {
	if k == nil {
		return &KnownASG{}
	}
	c := *k
	if c.Ambiguous {
		c.Valid = false
	}
	c.Instances = make(map[string]string, len(k.Instances))
	for a, b := range k.Instances {
		c.Instances[a] = b
	}
	return &c
}

// Call is one seam call as escalator issued it and as it was answered.
type Call struct {
	Seq     int
	T0, T1  time.Time // virtual time at entry and at return
	Scan    int
	Life    int
	Group   string // group context ("" = refresh / start-up)
	Op      string
	Target  string // node name, ASG name or (first) instance id
	Fault   string
	Applied bool
	Err     string // error as seen by escalator ("" = acknowledged)

	// arguments / results
	Desired     int64    // set-desired
	IDs         []string // attach / terminate-ec2 / status / create-fleet result ids
	Decrement   bool     // terminate-in-asg
	DecrementSet bool
	ASGNames    []string // describe
	FleetTotal  int64
	FleetMin    int64 // MinTargetCapacity in the options block matching the lifecycle (-1 if absent)
	FleetOther  int64 // MinTargetCapacity in the other block (-1 if absent)
	FleetType   string
	FleetLifecycle string
	FleetOverrides int
	NodeBody    *v1.Node // PUT body
	GetBody     *v1.Node // object returned by GET (nil on error)
	PrevGet     *v1.Node // PUT: object the preceding acknowledged GET of this node returned
	Stored      *v1.Node // PUT/DELETE: stored object just before the call was served
	HTTPStatus  int
	Known       *KnownASG // known-ASG model of the group's ASG just before this call
	Phase       string    // filled by the oracle: "", "force", "grace", "taint", "untaint"
}

func (c *Call) Acked() bool { return c.Err == "" }

func (c *Call) Line() string {
	var b strings.Builder
	fmt.Fprintf(&b, "%s g=%s %s %s", c.T0.UTC().Format("15:04:05.000"), c.Group, c.Op, c.Target)
	switch c.Op {
	case OpSetDesired:
		fmt.Fprintf(&b, " desired=%d", c.Desired)
	case OpAttach, OpTerminateEC2, OpStatus:
		fmt.Fprintf(&b, " n=%d", len(c.IDs))
	case OpCreateFleet:
		fmt.Fprintf(&b, " total=%d min=%d got=%d", c.FleetTotal, c.FleetMin, len(c.IDs))
	case OpTerminateASG:
		fmt.Fprintf(&b, " decrement=%v", c.Decrement)
	case OpPut, OpPatch:
		if c.NodeBody != nil {
			fmt.Fprintf(&b, " taints=%s", taintsString(c.NodeBody.Spec.Taints))
		}
	}
	if c.Fault != "" {
		fmt.Fprintf(&b, " fault=%s", c.Fault)
	}
	if c.Err != "" {
		fmt.Fprintf(&b, " err=%q", trunc(c.Err, 80))
	}
	if c.T1.After(c.T0) {
		fmt.Fprintf(&b, " took=%v", c.T1.Sub(c.T0))
	}
	return b.String()
}

func trunc(s string, n int) string {
	if len(s) > n {
		return s[:n]
	}
	return s
}

func taintsString(ts []v1.Taint) string {
	parts := make([]string, 0, len(ts))
	for _, t := range ts {
		parts = append(parts, fmt.Sprintf("%s=%s:%s", t.Key, t.Value, t.Effect))
	}
	return "[" + strings.Join(parts, ",") + "]"
}

// ---- scans ---------------------------------------------------------------

type Outcome struct {
	Err      string // error returned by RunOnce / NewController
	ErrType  string
	Panic    string // recovered foreign panic value
	Stack    string
	Exit     bool // logrus Fatal reached
	Crash    bool // injected crash
	Wedge    string
	NotInGroupNode string // when Err is the NodeNotInNodeGroup error
}

func (o Outcome) EndsLifetime() bool {
	return o.Err != "" || o.Panic != "" || o.Exit || o.Crash || o.Wedge != ""
}

// GroupScan is everything observed while one group was being processed in
// one scan.
type GroupScan struct {
	Group    string
	Idx      int
	Reached  bool
	PodsErr  bool
	NodesErr bool
	NodesListed bool
	Pods     []*v1.Pod
	Nodes    []*v1.Node
	MembersAmbiguous bool // see KnownASG.AmbiguousMembers
	KnownAmbiguous bool // see KnownASG.Ambiguous: true if it held at any point of this group's turn
	StalePodNodes []string // nodes on which the API server holds a bound pod that the cached population lacks
	StaleNodes map[string]bool // nodes of the view whose cached copy is older than what the API server holds at list time
	PodsListed bool
	Reqs       []*ProvReq // calls on the group's cloudprovider.NodeGroup, in order
	ViewMoved  bool // a later listing in the same turn returned something else than the first
	TLeave time.Time // the group's turn ended (another group's began, or the scan returned)
	TEnter time.Time // the group's turn began (first call of one of its listers)
	TList    time.Time
	Calls    []*Call
	Gauges   map[string]float64
	Faulted  bool // an injected fault fired in this group's context
	WorldOps int  // world actions interleaved into this group's context

	// population of the whole cache at list time (for the attribution oracle)
	AllPods  []*v1.Pod
	AllNodes []*v1.Node

	KnownAtList *KnownASG
	// effective options for this scan
	MinEff, MaxEff int
	Dry            bool

	// derived (oracle.go: analyse)
	A *Analysis
}

type ScanRecord struct {
	Life    int
	Index   int // global scan index within the run
	InLife  int // index within the lifetime
	Start   time.Time
	End     time.Time
	Pre     []*Call // calls outside any group's context (refresh path)
	Groups  []*GroupScan
	Outcome Outcome
	FaultsFired int
	Calm    bool // regime of the run
}

func (s *ScanRecord) AllCalls() []*Call {
	var out []*Call
	out = append(out, s.Pre...)
	for _, g := range s.Groups {
		out = append(out, g.Calls...)
	}
	sort.SliceStable(out, func(i, j int) bool { return out[i].Seq < out[j].Seq })
	return out
}

// ---- violations ----------------------------------------------------------

type Violation struct {
	Property string `json:"property"`
	Rule     string `json:"rule"`
	Sub      string `json:"sub,omitempty"`
	Site     string `json:"site,omitempty"` // call site / trigger class used for known-finding matching
	Scan     int    `json:"scan"`
	Life     int    `json:"life"`
	Group    string `json:"group,omitempty"`
	Detail   string `json:"detail"`
	Excerpt  []string `json:"excerpt,omitempty"`
}

func (v Violation) Key() string {
	return v.Property + "/" + v.Rule + "/" + v.Sub + "/" + v.Site
}

func (v Violation) String() string {
	return fmt.Sprintf("%s %s%s scan=%d life=%d group=%s: %s", v.Property, v.Rule, ifs(v.Sub != "", "/"+v.Sub, ""), v.Scan, v.Life, v.Group, v.Detail)
}

func ifs(c bool, a, b string) string {
	if c {
		return a
	}
	return b
}


// ProvReq is one call of the code under test on its cloudprovider.NodeGroup (the interface C17-C19 speak
// about): where a removal or scale-up request begins and ends, what it was given and how it ended.
type ProvReq struct {
	Kind       string // "delete" | "increase"
	Nodes      []string
	Delta      int64
	Seq0, Seq1 int // seam calls with Seq0 < Seq <= Seq1 belong to the request
	Done       bool // returned (false: a crash or an exit ended it)
	Err        string
	NotInGroup string // node named by a not-in-group error
	Known      *KnownASG // the known-ASG model when the request began
}

func (r *ProvReq) has(node string) bool {
	for _, n := range r.Nodes {
		if n == node {
			return true
		}
	}
	return false
}
