package harness

// World actors. Everything a group's actors do draws only from streams keyed
// by that group and touches only that group's objects, so that two runs that
// differ inside one group leave the other groups' worlds identical (C11, C12).

import (
	"fmt"
	"sort"
	"strconv"
	"time"

	v1 "k8s.io/api/core/v1"
	"k8s.io/apimachinery/pkg/api/resource"
	metav1 "k8s.io/apimachinery/pkg/apis/meta/v1"
	"k8s.io/apimachinery/pkg/types"
)

const (
	escTaint   = "atlassian.com/escalator"
	forceTaint = "atlassian.com/escalator-force"
	noDelete   = "atlassian.com/no-delete"
)

type GroupWorld struct {
	w    *World
	cfg  *GroupCfg
	name string

	nodeSeq, podSeq, instSeq int
	phase, phaseLeft int
	load  float64 // per-group workload intensity (light / medium / heavy)
	salt string // stream-key salt: lets a metamorphic pair vary exactly one group
}

func newGroupWorld(w *World, cfg *GroupCfg) *GroupWorld {
	return &GroupWorld{w: w, cfg: cfg, name: cfg.Name}
}

func (g *GroupWorld) s(kind string) *Stream { return g.w.ch.S("w/" + g.name + g.salt + "/" + kind) }

func (g *GroupWorld) ev(kind string) {
	g.w.stats.World[kind]++
	g.w.logf("world g=%s %s", g.name, kind)
}

// ---- instances and nodes ---------------------------------------------------

func (g *GroupWorld) newInstance(asg string, fleet bool) *Inst {
	g.instSeq++
	s := g.s("inst")
	id := fmt.Sprintf("i-%d%s%04d", g.cfg.Idx, ifs(fleet, "f", "a"), g.instSeq)
	i := &Inst{ID: id, AZ: []string{"us-east-1a", "us-east-1b"}[s.Intn(2)], ASG: asg, Launch: time.Now(), EC2State: "pending", Fleet: fleet, Owner: g.name}
	delay := time.Duration(s.Pick(3, 3, 2, 1, 1)) * 2 * time.Second // 0,2,4,6,8 s
	never := s.Chance(0.05)
	if fleet {
		if g.w.cfg.ForceFault["never-ready"] == "all" {
			never = true
		}
		if g.cfg.FleetTimeout == "" || g.w.cfg.FaultOnlyGroup != "" && g.w.cfg.FaultOnlyGroup != g.name {
			never = false // default 1m timeout is a whole number of seconds: a never-ready fleet would tie ticker and deadline
		}
		if !(never && g.w.cfg.Faults[FNeverReady] && !g.w.cfg.Calm) {
			i.ReadyAt = time.Now().Add(delay)
		} else {
			g.w.stats.Fault(FNeverReady)
			g.w.markFaulted()
		}
	} else {
		i.Life = "Pending"
		i.ReadyAt = time.Now().Add(delay * 5)
		g.w.at(i.ReadyAt, "inservice", func() {
			if i.Life == "Pending" {
				i.Life = "InService"
				i.EC2State = "running"
				g.scheduleRegistration(i)
			}
		})
	}
	g.w.aws.insts[id] = i
	return i
}

// nodeNameFor: nodes are named after private IPs, and IPs are recycled: a new instance takes the lowest
// address that no live instance of the group and no existing Node object uses.
func (g *GroupWorld) nodeNameFor(i *Inst) string {
	if i.NodeName != "" {
		return i.NodeName
	}
	used := map[string]bool{}
	for _, x := range g.w.aws.insts {
		if x.Owner == g.name && x.NodeName != "" && x.EC2State != "terminated" && !(x.Life == "Terminating" && !x.GoneAt.IsZero() && !time.Now().Before(x.GoneAt)) {
			used[x.NodeName] = true
		}
	}
	for k := 1; ; k++ {
		name := fmt.Sprintf("ip-10-%d-0-%d", g.cfg.Idx, k)
		if used[name] {
			continue
		}
		if _, exists := g.w.kube.nodes[name]; exists {
			continue
		}
		i.NodeName = name
		return name
	}
}

func (g *GroupWorld) scheduleRegistration(i *Inst) {
	s := g.s("reg")
	delay := time.Duration(1+s.Intn(12)) * 5 * time.Second
	mode := s.Pick(8, 1, 1) // normal, empty provider id first, never registers
	if !g.w.cfg.OddObjects && mode == 1 {
		mode = 0
	}
	if mode == 2 {
		g.ev("never-registers")
		return
	}
	g.w.after(delay, "register", func() {
		if i.Life == "Terminating" || i.EC2State == "terminated" {
			return
		}
		if _, exists := g.w.kube.nodes[g.nodeNameFor(i)]; exists {
			return
		}
		n := g.makeNode(i, time.Now())
		if mode == 1 {
			pid := n.Spec.ProviderID
			n.Spec.ProviderID = ""
			g.w.stats.Probe("node-registered-with-empty-provider-id")
			fill := time.Duration(1+s.Intn(6)) * g.w.cfg.ScanInterval / 2
			g.w.after(fill, "fill-provider-id", func() {
				if cur, ok := g.w.kube.nodes[n.Name]; ok && cur.Spec.ProviderID == "" {
					c := cur.DeepCopy()
					c.Spec.ProviderID = pid
					g.w.kube.putNode(c, "")
					g.ev("provider-id-filled")
				}
			})
		}
		g.w.kube.putNode(n, g.name)
		g.ev("node-registered")
	})
}

func (g *GroupWorld) makeNode(i *Inst, created time.Time) *v1.Node {
	s := g.s("node")
	cpu, mem := g.cfg.NodeCPU, g.cfg.NodeMem
	if g.cfg.Hetero && s.Chance(0.5) {
		cpu, mem = cpu*2, mem*2
	}
	created = created.Add(g.w.cfg.CreationSkew).Truncate(time.Second)
	n := &v1.Node{
		ObjectMeta: metav1.ObjectMeta{
			Name: g.nodeNameFor(i), UID: types.UID(fmt.Sprintf("uid-%x-%d-%s", g.w.ch.Seed, g.w.execID, i.ID)), CreationTimestamp: metav1.NewTime(created),
			Labels: map[string]string{g.cfg.LabelKey: g.cfg.LabelValue, "kubernetes.io/hostname": g.nodeNameFor(i)},
		},
		Spec: v1.NodeSpec{ProviderID: g.w.aws.providerID(i)},
		Status: v1.NodeStatus{
			Allocatable: v1.ResourceList{v1.ResourceCPU: *resource.NewMilliQuantity(cpu, resource.DecimalSI), v1.ResourceMemory: *resource.NewQuantity(mem, resource.BinarySI), v1.ResourcePods: *resource.NewQuantity(110, resource.DecimalSI)},
			Capacity:    v1.ResourceList{v1.ResourceCPU: *resource.NewMilliQuantity(cpu+100, resource.DecimalSI), v1.ResourceMemory: *resource.NewQuantity(mem+(256<<20), resource.BinarySI)},
			Conditions:  []v1.NodeCondition{{Type: v1.NodeReady, Status: v1.ConditionTrue}},
		},
	}
	if s.Chance(0.3) {
		n.Annotations = map[string]string{"node.alpha.kubernetes.io/ttl": "0"}
	}
	if mem == 8053063680 && s.Chance(0.5) { // the same amount as an in-process parsed fractional binary quantity
		n.Status.Allocatable[v1.ResourceMemory] = resource.MustParse("7.5Gi")
	}
	if s.Chance(g.w.prof.PZeroCreation) {
		n.CreationTimestamp = metav1.Time{}
		g.w.stats.Shapes["node-zero-creation"]++
	}
	if g.w.cfg.OddObjects {
		switch s.Pick(12, 1, 1, 1, 1, 1, 1) {
		case 1:
			n.Status.Allocatable = nil
			g.w.stats.Shapes["node-no-allocatable"]++
		case 2:
			n.Status.Allocatable = v1.ResourceList{v1.ResourceCPU: resource.MustParse("0"), v1.ResourceMemory: resource.MustParse("0")}
			g.w.stats.Shapes["node-zero-capacity"]++
		case 3:
			n.Labels = map[string]string{g.cfg.LabelKey: g.cfg.LabelValue}
			n.Annotations = nil
		case 4:
			n.Spec.ProviderID = []string{"", "aws:///", "aws:///us-east-1a", "foo", "aws://us-east-1a/i-123"}[s.Intn(5)]
			g.w.stats.Shapes["node-odd-provider-id"]++
		case 5:
			n.Status.Allocatable = v1.ResourceList{v1.ResourceCPU: resource.MustParse("4")}
			g.w.stats.Shapes["node-no-memory"]++
		case 6:
			n.CreationTimestamp = metav1.Time{}
			g.w.stats.Shapes["node-zero-creation"]++
		}
	}
	return n
}

func (g *GroupWorld) instanceTerminated(i *Inst) {
	// the Node object of a terminated instance is removed by the cloud node
	// lifecycle controller after a while, unless escalator deletes it first
	if i.NodeName == "" {
		return // never registered as a Node
	}
	name := i.NodeName
	s := g.s("gc")
	d := time.Duration(2+s.Intn(6)) * g.w.cfg.ScanInterval
	g.w.after(d, "node-gc", func() {
		if _, ok := g.w.kube.nodes[name]; ok {
			g.w.kube.deleteNode(name)
			g.w.onNodeDeleted(name, false)
			g.ev("node-gc")
		}
	})
}

// groupNodes returns the truth-store nodes currently labelled for this group,
// sorted by name.
func (g *GroupWorld) groupNodes() []*v1.Node {
	var out []*v1.Node
	for _, n := range g.w.kube.sortedNodeNames() {
		if g.w.kube.nodeOwner[n] != g.name {
			continue
		}
		out = append(out, g.w.kube.nodes[n])
	}
	return out
}

func (g *GroupWorld) groupPods() []*v1.Pod {
	var out []*v1.Pod
	for _, n := range g.w.kube.sortedPodNames() {
		if g.w.kube.podOwner[n] != g.name {
			continue
		}
		if ph := g.w.kube.pods[n].Status.Phase; ph == v1.PodSucceeded || ph == v1.PodFailed {
			continue // finished: uses nothing, waits for garbage collection
		}
		out = append(out, g.w.kube.pods[n])
	}
	return out
}

// ---- initial cluster -----------------------------------------------------------

func (g *GroupWorld) bootstrap() {
	w := g.w
	s := g.s("boot")
	asg := &ASG{Name: g.cfg.ASG, Min: g.cfg.ASGMin, Max: g.cfg.ASGMax, VPCZone: []string{"subnet-a,subnet-b", "subnet-a", "subnet-a,subnet-b,subnet-c"}[s.Intn(3)], Tags: map[string]string{}, Owner: g.name}
	if s.Chance(0.3) {
		asg.Tags["k8s.io/atlassian-escalator/enabled"] = "true"
	}
	w.aws.asgs[asg.Name] = asg
	n := g.cfg.InitialNodes
	asg.Desired = int64(n + g.cfg.InitialDesiredSkew)
	if asg.Desired < asg.Min {
		asg.Desired = asg.Min
	}
	if asg.Desired > asg.Max {
		asg.Desired = asg.Max
	}
	now := time.Now()
	ageMode := s.Pick(4, 2, 2, 1) // spread, all identical, pairs of ties, reversed-by-name
	for k := 0; k < n; k++ {
		i := g.newInstance(asg.Name, false)
		i.Life, i.EC2State = "InService", "running"
		var age time.Duration
		switch ageMode {
		case 0:
			age = time.Duration(1+s.Intn(5000)) * time.Second
		case 1:
			age = time.Hour
		case 2:
			age = time.Duration(1+k/2) * 10 * time.Minute
		case 3:
			age = time.Duration(n-k) * time.Minute
		}
		i.Launch = now.Add(-age - time.Minute)
		node := g.makeNode(i, now.Add(-age))
		// leftovers of a previous controller lifetime / operators
		pr := w.prof
		annotateToo := s.Chance(pr.PAnnotate)
		healthy := 12
		if g.cfg.BigGroup {
			healthy = 3 // mostly leftovers of an earlier lifetime: large reap batches
		}
		if g.cfg.BigGroup && n > 21 && g.cfg.Idx%2 == 0 && k >= 2 {
			// a whole fleet drained by the previous lifetime: every node but two carries an expired taint
			stamp := now.Add(-g.cfg.Hard - time.Duration(60+s.Intn(600))*time.Second).Unix()
			node.Spec.Taints = append(node.Spec.Taints, v1.Taint{Key: escTaint, Value: strconv.FormatInt(stamp, 10), Effect: v1.TaintEffectNoSchedule})
			w.kube.putNode(node, g.name)
			continue
		}
		switch s.Pick(healthy, 2+int(pr.PExtTaint*8), 1+int(pr.PCordon*4), 1+int(pr.PAnnotate*4), 1+int(pr.PForceTaint*4)) {
		case 1:
			stamp := now.Add(-time.Duration(s.Intn(int(g.cfg.Hard/time.Second)+120)) * time.Second).Unix()
			node.Spec.Taints = append(node.Spec.Taints, v1.Taint{Key: escTaint, Value: strconv.FormatInt(stamp, 10), Effect: v1.TaintEffectNoSchedule})
			if annotateToo {
				node.Annotations = map[string]string{noDelete: "keep"}
			}
		case 2:
			node.Spec.Unschedulable = true
		case 3:
			node.Annotations = map[string]string{noDelete: "keep"}
		case 4:
			if w.cfg.Actors["force-taint"] {
				node.Spec.Taints = append(node.Spec.Taints, v1.Taint{Key: forceTaint, Value: "x", Effect: v1.TaintEffectNoSchedule})
			}
		}
		w.kube.putNode(node, g.name)
	}
	// pending instances launched by desired > n happen through the reconciler
	g.phase = s.Intn(5)
	g.phaseLeft = 1 + s.Intn(8)
	// initial workload
	g.load = []float64{0.7, 0.15, 0.4, 1.3}[s.Pick(3, 3, 3, 2)]
	if g.cfg.BigGroup && n < 10 {
		g.load = 2.5 // room to grow by tens of nodes: keep the demand coming
	}
	pods := int(float64(s.Intn(3*(n+1))) * g.load)
	for k := 0; k < pods; k++ {
		g.spawnPod(s, false)
	}
	g.schedule()
	first := time.Duration(1+s.Intn(10)) * time.Second
	w.after(first, "tick", g.tick)
}

// ---- pods --------------------------------------------------------------------

var cpuForms = []string{"100m", "250m", "0.5", "1", "1500m", "2", "0.1", "100.5m", "5e-1", "3", "50m", "200m", "300m", "0.25"}
var memForms = []string{"128Mi", "256Mi", "1Gi", "0.5Gi", "1G", "500M", "1e9", "123456789", "2Gi", "1536Mi", "64Mi", "100k"}

func (g *GroupWorld) selectorFor(p *v1.Pod, s *Stream) {
	if g.cfg.IsDefault {
		return
	}
	style := g.cfg.AffinityStyle
	if style == 3 {
		style = s.Intn(3)
	}
	in := func(vals ...string) *v1.Affinity {
		return &v1.Affinity{NodeAffinity: &v1.NodeAffinity{RequiredDuringSchedulingIgnoredDuringExecution: &v1.NodeSelector{NodeSelectorTerms: []v1.NodeSelectorTerm{
			{MatchExpressions: []v1.NodeSelectorRequirement{{Key: g.cfg.LabelKey, Operator: v1.NodeSelectorOpIn, Values: vals}}}}}}}
	}
	switch style {
	case 0:
		p.Spec.NodeSelector = map[string]string{g.cfg.LabelKey: g.cfg.LabelValue}
		if s.Chance(0.12) { // "affinity: {}" as templating tools emit it
			p.Spec.Affinity = &v1.Affinity{}
			g.w.stats.Shapes["pod:selector+empty-affinity"]++
		}
	case 1:
		if s.Chance(0.3) {
			p.Spec.Affinity = in("zzz", g.cfg.LabelValue)
		} else {
			p.Spec.Affinity = in(g.cfg.LabelValue)
		}
	case 2:
		p.Spec.NodeSelector = map[string]string{g.cfg.LabelKey: g.cfg.LabelValue, "disk": "ssd"}
		p.Spec.Affinity = in(g.cfg.LabelValue)
	}
}

func (g *GroupWorld) spawnPod(s *Stream, edge bool) *v1.Pod {
	g.podSeq++
	p := &v1.Pod{ObjectMeta: metav1.ObjectMeta{Name: fmt.Sprintf("p-%d-%05d", g.cfg.Idx, g.podSeq), Namespace: "default"}, Status: v1.PodStatus{Phase: v1.PodPending}}
	p.UID = types.UID(fmt.Sprintf("uid-%x-%d-%s", g.w.ch.Seed, g.w.execID, p.Name))
	g.selectorFor(p, s)
	switch s.Pick(6, 2, 2) {
	case 1:
		p.OwnerReferences = []metav1.OwnerReference{{Kind: "Job", Name: "job", APIVersion: "batch/v1"}}
	case 2:
		p.OwnerReferences = []metav1.OwnerReference{{Kind: "ReplicaSet", Name: "rs", APIVersion: "apps/v1"}}
	}
	mkc := func(name, cpu, mem string) v1.Container {
		c := v1.Container{Name: name, Image: "busybox"}
		rl := v1.ResourceList{}
		if cpu != "" {
			rl[v1.ResourceCPU] = resource.MustParse(cpu)
		}
		if mem != "" {
			rl[v1.ResourceMemory] = resource.MustParse(mem)
		}
		if len(rl) > 0 {
			c.Resources.Requests = rl
		}
		return c
	}
	nc := 1 + s.Pick(6, 2, 1)
	shape := "containers-" + strconv.Itoa(nc)
	for k := 0; k < nc; k++ {
		cpu := cpuForms[s.Intn(len(cpuForms))]
		mem := memForms[s.Intn(len(memForms))]
		switch s.Pick(8, 1, 1, 1) {
		case 1:
			cpu = ""
			shape += "+nocpu"
		case 2:
			mem = ""
			shape += "+nomem"
		case 3:
			cpu, mem = "", ""
			shape += "+norequests"
		}
		p.Spec.Containers = append(p.Spec.Containers, mkc(fmt.Sprintf("c%d", k), cpu, mem))
	}
	switch s.Pick(7, 1, 1, 1, 1, 1) {
	case 5: // native sidecar: an init container with restartPolicy Always
		always := v1.ContainerRestartPolicyAlways
		sc := mkc("sidecar", "400m", "256Mi")
		sc.RestartPolicy = &always
		p.Spec.InitContainers = []v1.Container{sc, mkc("init", "100m", "64Mi")}
		shape += "+init-sidecar"
	case 4: // no single init container is the largest in both resources
		p.Spec.InitContainers = []v1.Container{mkc("init-cpu", "6", "16Mi"), mkc("init-mem", "20m", "24Gi"), mkc("init-mid", "1", "1Gi")}
		shape += "+init-cross"
	case 1:
		p.Spec.InitContainers = []v1.Container{mkc("init", "50m", "32Mi")}
		shape += "+init-small"
	case 2:
		p.Spec.InitContainers = []v1.Container{mkc("init", "8", "32Gi"), mkc("init2", "10m", "")}
		shape += "+init-large"
	case 3:
		p.Spec.Overhead = v1.ResourceList{v1.ResourceCPU: resource.MustParse("250m"), v1.ResourceMemory: resource.MustParse("120Mi")}
		shape += "+overhead"
	}
	if g.w.cfg.OddObjects && s.Chance(0.05) {
		p.Spec.Containers = nil
		shape = "no-containers"
	}
	if g.w.cfg.OddObjects && s.Chance(0.04) { // absurd but valid request: totals beyond 2^63/1e5 bytes
		p.Spec.Containers = append(p.Spec.Containers, mkc("huge", "100m", []string{"90Ti", "200Ti", "1Pi", "9Pi"}[s.Intn(4)]))
		shape += "+huge-mem"
	}
	g.w.stats.Shapes["pod:"+shape]++
	dur := time.Duration(1+s.Intn(40)) * g.w.cfg.ScanInterval / 2
	p.Annotations = map[string]string{"sim/duration": dur.String()}
	g.w.kube.putPod(p, g.name)
	// batch jobs that never get a node are cancelled after a while, so a saturated group drains again
	name := p.Name
	g.w.after(dur/2+time.Duration(1+s.Intn(6))*g.w.cfg.ScanInterval, "pod-cancelled", func() {
		if cur, ok := g.w.kube.pods[name]; ok && cur.Spec.NodeName == "" {
			g.w.kube.deletePod(name)
			g.w.stats.World["pod-cancelled"]++
		}
	})
	return p
}

// edgePod sizes a one-container pod so that the group's total request lands on
// threshold x capacity / 100 (+-1 unit) for a drawn threshold and resource.
func (g *GroupWorld) edgePod(s *Stream) {
	var capCPU, capMem, reqCPU, reqMem int64
	for _, n := range g.groupNodes() {
		if n.Spec.Unschedulable || hasTaintKey(n, escTaint) || hasTaintKey(n, forceTaint) {
			continue
		}
		capCPU += n.Status.Allocatable.Cpu().MilliValue()
		capMem += n.Status.Allocatable.Memory().Value()
	}
	for _, p := range g.groupPods() {
		c, m := podRequestLib(p)
		reqCPU += c
		reqMem += m
	}
	th := []int{g.cfg.Lower, g.cfg.Upper, g.cfg.ScaleUp}[s.Intn(3)]
	delta := int64(s.Intn(3)) - 1
	useMem := s.Chance(0.4)
	g.podSeq++
	p := &v1.Pod{ObjectMeta: metav1.ObjectMeta{Name: fmt.Sprintf("p-%d-%05d", g.cfg.Idx, g.podSeq), Namespace: "default"}, Status: v1.PodStatus{Phase: v1.PodPending}}
	g.selectorFor(p, s)
	rl := v1.ResourceList{}
	if useMem {
		want := int64(th)*capMem/100 + delta - reqMem
		if want <= 0 {
			g.podSeq--
			return
		}
		rl[v1.ResourceMemory] = *resource.NewQuantity(want, resource.BinarySI)
	} else {
		want := int64(th)*capCPU/100 + delta - reqCPU
		if want <= 0 {
			g.podSeq--
			return
		}
		rl[v1.ResourceCPU] = *resource.NewMilliQuantity(want, resource.DecimalSI)
	}
	p.Spec.Containers = []v1.Container{{Name: "edge", Image: "busybox", Resources: v1.ResourceRequirements{Requests: rl}}}
	dur := time.Duration(2+s.Intn(20)) * g.w.cfg.ScanInterval
	p.Annotations = map[string]string{"sim/duration": dur.String()}
	g.w.kube.putPod(p, g.name)
	g.w.stats.Probe("edge-pod")
}

// podRequestLib computes a pod's request with the Kubernetes library (world
// side only: the scheduler actor; the oracle has its own arithmetic).
func podRequestLib(p *v1.Pod) (cpu, mem int64) {
	for _, c := range p.Spec.Containers {
		cpu += c.Resources.Requests.Cpu().MilliValue()
		mem += c.Resources.Requests.Memory().Value()
	}
	for _, c := range p.Spec.InitContainers {
		if v := c.Resources.Requests.Cpu().MilliValue(); v > cpu {
			cpu = v
		}
		if v := c.Resources.Requests.Memory().Value(); v > mem {
			mem = v
		}
	}
	if p.Spec.Overhead != nil {
		cpu += p.Spec.Overhead.Cpu().MilliValue()
		mem += p.Spec.Overhead.Memory().Value()
	}
	return
}

func boolInt(b bool) int {
	if b {
		return 1
	}
	return 0
}

func hasTaintKey(n *v1.Node, key string) bool {
	for _, t := range n.Spec.Taints {
		if t.Key == key {
			return true
		}
	}
	return false
}

// schedule is the simulated kube-scheduler for this group.
func (g *GroupWorld) schedule() {
	w := g.w
	nodes := g.groupNodes()
	type room struct{ cpu, mem int64 }
	free := map[string]*room{}
	for _, n := range nodes {
		if n.Labels[g.cfg.LabelKey] != g.cfg.LabelValue {
			continue
		}
		free[n.Name] = &room{n.Status.Allocatable.Cpu().MilliValue(), n.Status.Allocatable.Memory().Value()}
	}
	pods := g.groupPods()
	for _, p := range pods {
		if p.Spec.NodeName != "" {
			if r, ok := free[p.Spec.NodeName]; ok {
				c, m := podRequestLib(p)
				r.cpu -= c
				r.mem -= m
			}
		}
	}
	for _, p := range pods {
		if p.Spec.NodeName != "" {
			continue
		}
		c, m := podRequestLib(p)
		for _, n := range nodes {
			r, ok := free[n.Name]
			if !ok || n.Spec.Unschedulable {
				continue
			}
			blocked := false
			for _, t := range n.Spec.Taints {
				if t.Effect == v1.TaintEffectNoSchedule || t.Effect == v1.TaintEffectNoExecute {
					blocked = true
				}
			}
			if blocked || r.cpu < c || r.mem < m {
				continue
			}
			r.cpu -= c
			r.mem -= m
			np := p.DeepCopy()
			np.Spec.NodeName = n.Name
			np.Status.Phase = v1.PodRunning
			np.Status.Conditions = []v1.PodCondition{{Type: v1.PodScheduled, Status: v1.ConditionTrue}}
			if g.s("sched").Chance(0.15) { // bound but still starting
				np.Status.Phase = v1.PodPending
			}
			w.kube.putPod(np, "")
			dur, _ := time.ParseDuration(p.Annotations["sim/duration"])
			name := p.Name
			w.after(dur, "pod-done", func() {
				if cur, ok := w.kube.pods[name]; ok && cur.DeletionTimestamp == nil && len(name)%3 == 0 {
					// graceful termination first: deletionTimestamp set, still Running and still on the node for a while
					term := cur.DeepCopy()
					now := metav1.NewTime(time.Now().Truncate(time.Second))
					term.DeletionTimestamp = &now
					w.kube.putPod(term, "")
					w.stats.World["pod-terminating"]++
					w.after(time.Duration(1+len(name)%3)*w.cfg.ScanInterval, "pod-gone", func() { w.kube.deletePod(name) })
					return
				}
				if cur, ok := w.kube.pods[name]; ok {
					// completed pods stay in the API for a while in a terminal phase (excluded by the informer's selector)
					done := cur.DeepCopy()
					done.Status.Phase = []v1.PodPhase{v1.PodSucceeded, v1.PodFailed}[len(name)%2]
					w.kube.putPod(done, "")
					w.stats.World["pod-completed"]++
					w.after(3*w.cfg.ScanInterval, "pod-gc", func() { w.kube.deletePod(name) })
				}
			})
			break
		}
	}
}

// strayBind: pods without any selector (the default group's) can be scheduled onto ANY schedulable node,
// including another group's. The other group's accounting ignores them; its emptiness test must too.
func (g *GroupWorld) strayBind() {
	if !g.cfg.IsDefault || len(g.w.groups) < 2 {
		return
	}
	s := g.s("stray")
	for _, p := range g.groupPods() {
		if p.Spec.NodeName != "" {
			continue
		}
		hit := s.Chance(g.w.prof.PStray)
		pick := s.U32()
		if !hit {
			continue
		}
		var cands []*v1.Node
		for _, name := range g.w.kube.sortedNodeNames() {
			n := g.w.kube.nodes[name]
			if o := g.w.kube.nodeOwner[name]; o == g.name || o == g.w.cfg.StrayExclude || n.Spec.Unschedulable {
				continue
			}
			cands = append(cands, n)
		}
		if len(cands) == 0 {
			continue
		}
		n := cands[int(pick%uint32(len(cands)))]
		np := p.DeepCopy()
		np.Spec.NodeName = n.Name
		np.Status.Phase = v1.PodRunning
		np.Status.Conditions = []v1.PodCondition{{Type: v1.PodScheduled, Status: v1.ConditionTrue}}
		g.w.kube.putPod(np, "")
		g.w.stats.World["default-pod-bound-to-other-groups-node"]++
		dur, _ := time.ParseDuration(p.Annotations["sim/duration"])
		name := p.Name
		g.w.after(dur, "pod-done", func() {
			if _, ok := g.w.kube.pods[name]; ok {
				g.w.kube.deletePod(name)
			}
		})
	}
}

// reconcile is the ASG's own control loop.
func (g *GroupWorld) reconcile() {
	a := g.w.aws
	asg := a.asgs[g.cfg.ASG]
	live := a.live(asg.Name)
	for live < asg.Desired {
		g.newInstance(asg.Name, false)
		live++
		g.ev("asg-launch")
	}
	if live > asg.Desired { // desired lowered from outside: the ASG picks victims itself
		var cands []*Inst
		for _, id := range a.sortedInstIDs() {
			i := a.insts[id]
			if i.ASG == asg.Name && i.Life != "Terminating" {
				cands = append(cands, i)
			}
		}
		sort.SliceStable(cands, func(x, y int) bool { return cands[x].Launch.Before(cands[y].Launch) })
		for k := 0; live > asg.Desired && k < len(cands); k++ {
			i := cands[k]
			i.Life, i.EC2State = "Terminating", "shutting-down"
			i.GoneAt = time.Now().Add(g.w.drawGone(i))
			g.instanceTerminated(i)
			live--
			g.ev("asg-scale-in")
		}
	}
}

var phaseArrive = []float64{0.02, 0.15, 0.35, 0.6, 0.9}
var phaseBurst = []int{1, 2, 3, 6, 12}

func (g *GroupWorld) tick() {
	w := g.w
	s := g.s("tick")
	// NoExecute eviction
	for _, p := range g.groupPods() {
		if p.Spec.NodeName == "" {
			continue
		}
		if n, ok := w.kube.nodes[p.Spec.NodeName]; ok {
			for _, t := range n.Spec.Taints {
				if t.Effect == v1.TaintEffectNoExecute {
					w.kube.deletePod(p.Name)
					w.stats.World["pod-evicted"]++
					break
				}
			}
		}
	}
	// workload
	if w.cfg.Actors["workload"] {
		g.phaseLeft--
		if g.phaseLeft <= 0 {
			g.phase = s.Pick(3, 3, 2, 2, 1)
			g.phaseLeft = 2 + s.Intn(12)
		}
		if s.Chance(phaseArrive[g.phase]*g.load) && len(g.groupPods()) < 60+4*g.cfg.Max*boolInt(g.cfg.BigGroup) {
			k := 1 + s.Intn(phaseBurst[g.phase])
			for j := 0; j < k; j++ {
				g.spawnPod(s, false)
			}
			w.stats.World["pods-arrived"] += k
		}
		if s.Chance(w.cfg.EdgeBias * 0.3) {
			g.edgePod(s)
		}
		if w.cfg.OddObjects && s.Chance(0.1) {
			g.oddPod(s)
		}
		if s.Chance(0.03) && !g.cfg.IsDefault { // a static (mirror) pod that selects this group: a group pod like any other
			if ns := g.groupNodes(); len(ns) > 0 {
				p := g.spawnPod(s, false)
				np := p.DeepCopy()
				np.Annotations["kubernetes.io/config.source"] = "file"
				np.Spec.NodeName = ns[s.Intn(len(ns))].Name
				np.Status.Phase = v1.PodRunning
				np.Status.Conditions = []v1.PodCondition{{Type: v1.PodScheduled, Status: v1.ConditionTrue}}
				w.kube.putPod(np, "")
				name := np.Name
				w.after(time.Duration(4+s.Intn(20))*w.cfg.ScanInterval, "static-pod-gone", func() { w.kube.deletePod(name) })
				w.stats.Shapes["pod:static-with-group-selector"]++
			}
		}
		if s.Chance(0.04) && !w.cfg.NoMislabel && !g.cfg.IsDefault { // pod names are reused across groups (re-created jobs)
			name := fmt.Sprintf("shared-%d", s.Intn(3))
			if _, exists := w.kube.pods[name]; exists {
				w.kube.deletePod(name)
			} else {
				p := g.spawnPod(s, false)
				np := p.DeepCopy()
				w.kube.deletePod(p.Name)
				np.Name = name
				np.UID = types.UID(fmt.Sprintf("uid-%x-%d-%s-%d", w.ch.Seed, w.execID, name, g.podSeq))
				w.kube.putPod(np, g.name)
				w.stats.World["pod-name-reused-across-groups"]++
			}
		}
		if s.Chance(0.06) { // in-place pod resize: same pod (same UID), new requests
			if pods := g.groupPods(); len(pods) > 0 {
				p := pods[s.Intn(len(pods))]
				if len(p.Spec.Containers) > 0 {
					np := p.DeepCopy()
					rl := v1.ResourceList{v1.ResourceCPU: resource.MustParse(cpuForms[s.Intn(len(cpuForms))]), v1.ResourceMemory: resource.MustParse(memForms[s.Intn(len(memForms))])}
					np.Spec.Containers[0].Resources.Requests = rl
					w.kube.putPod(np, "")
					w.stats.World["pod-resized-in-place"]++
				}
			}
		}
	}
	g.reconcile()
	g.schedule()
	g.strayBind()
	if w.cfg.Actors["operator"] && s.Chance(w.cfg.OperatorP) {
		g.operatorAction(g.s("op"), w.lastTerminateNode[g.name])
	}
	w.after(w.cfg.TickEvery, "tick", g.tick)
}

// oddPod creates pods that belong to no group (or must be excluded).
func (g *GroupWorld) oddPod(s *Stream) {
	g.podSeq++
	p := &v1.Pod{ObjectMeta: metav1.ObjectMeta{Name: fmt.Sprintf("odd-%d-%05d", g.cfg.Idx, g.podSeq), Namespace: "kube-system"}, Status: v1.PodStatus{Phase: v1.PodPending}}
	p.Spec.Containers = []v1.Container{{Name: "c", Image: "x", Resources: v1.ResourceRequirements{Requests: v1.ResourceList{v1.ResourceCPU: resource.MustParse("1"), v1.ResourceMemory: resource.MustParse("1Gi")}}}}
	expr := func(op v1.NodeSelectorOperator, vals ...string) *v1.Affinity {
		return &v1.Affinity{NodeAffinity: &v1.NodeAffinity{RequiredDuringSchedulingIgnoredDuringExecution: &v1.NodeSelector{NodeSelectorTerms: []v1.NodeSelectorTerm{
			{MatchExpressions: []v1.NodeSelectorRequirement{{Key: g.cfg.LabelKey, Operator: op, Values: vals}}}}}}}
	}
	kind := s.Intn(10)
	switch kind {
	case 0: // DaemonSet pod selecting the group: must not count
		p.Spec.NodeSelector = map[string]string{g.cfg.LabelKey: g.cfg.LabelValue}
		p.OwnerReferences = []metav1.OwnerReference{{Kind: "DaemonSet", Name: "ds"}}
		if ns := g.groupNodes(); len(ns) > 0 {
			p.Spec.NodeName = ns[s.Intn(len(ns))].Name
			p.Status.Phase = v1.PodRunning
		}
	case 1:
		p.Spec.NodeSelector = map[string]string{g.cfg.LabelKey: "other-value"}
	case 2:
		p.Spec.NodeSelector = map[string]string{"other-key": g.cfg.LabelValue}
	case 3:
		p.Spec.Affinity = expr(v1.NodeSelectorOpNotIn, g.cfg.LabelValue)
	case 4:
		p.Spec.Affinity = expr(v1.NodeSelectorOpExists)
	case 5:
		p.Spec.Affinity = &v1.Affinity{NodeAffinity: &v1.NodeAffinity{}}
	case 6:
		p.Spec.Affinity = &v1.Affinity{PodAntiAffinity: &v1.PodAntiAffinity{}}
	case 7: // static pod without selector: excluded from the default group
		p.Annotations = map[string]string{"kubernetes.io/config.source": "file"}
	case 8: // bound to a node that does not exist
		p.Spec.NodeSelector = map[string]string{"other-key": "x"}
		p.Spec.NodeName = "ghost-node"
		p.Status.Phase = v1.PodRunning
	case 9:
		p.Spec.Affinity = &v1.Affinity{NodeAffinity: &v1.NodeAffinity{RequiredDuringSchedulingIgnoredDuringExecution: &v1.NodeSelector{}}}
	}
	g.w.stats.Shapes[fmt.Sprintf("oddpod-%d", kind)]++
	// kinds 5, 6, 7 have no selector at all. 7 is static (excluded everywhere);
	// 5 and 6 carry an affinity stanza and are excluded from default too.
	owner := ownerNone
	g.w.kube.putPod(p, owner)
	name := p.Name
	g.w.after(time.Duration(5+s.Intn(30))*g.w.cfg.ScanInterval, "oddpod-done", func() { g.w.kube.deletePod(name) })
}

// ---- operator and other writers of Node objects --------------------------------

func (g *GroupWorld) pickNode(s *Stream, prefer string) *v1.Node {
	nodes := g.groupNodes()
	if len(nodes) == 0 {
		s.U32()
		return nil
	}
	if prefer != "" {
		if n, ok := g.w.kube.nodes[prefer]; ok && g.w.kube.nodeOwner[prefer] == g.name && s.Chance(0.7) {
			return n
		}
	}
	return nodes[s.Intn(len(nodes))]
}

var extTaintValues = []string{"", "0", "abc", "99999999999999999999", "9223372036854775807", "1e9", "946684800.5", "0x10", "0b1010", "0o17", "946_684_700", "0946684700", "0x386D4380"}

func (g *GroupWorld) operatorAction(s *Stream, prefer string) {
	w := g.w
	p := w.prof
	act := s.Pick(int(p.PCordon*100), int(p.PCordon*60), int(p.PAnnotate*100), int(p.PAnnotate*50), int(p.PForceTaint*60), int(p.PExtTaint*80), int(p.PForeignTaint*100), 10, int(p.PNodeLoss*100), int(p.PAsgEdit*100), int(p.PNodeLoss*100), 6, 5, int(p.PResize*100), int(p.PForceTaint*25))
	names := []string{"cordon", "uncordon", "annotate", "unannotate", "force-taint", "ext-taint", "foreign-taint", "remove-taint", "spot-loss", "asg-edit", "node-delete", "relabel", "ext-untaint", "resize", "force-taint-many"}
	gate := map[string]string{"cordon": "cordon", "uncordon": "cordon", "annotate": "annotate", "unannotate": "annotate", "force-taint": "force-taint", "ext-taint": "ext-taint",
		"foreign-taint": "foreign-taint", "remove-taint": "foreign-taint", "spot-loss": "spot", "asg-edit": "asg-edit", "node-delete": "node-delete", "relabel": "relabel", "ext-untaint": "ext-taint", "resize": "operator", "force-taint-many": "force-taint"}
	name := names[act]
	n := g.pickNode(s, prefer)
	v := s.U32()
	if !w.cfg.Actors[gate[name]] {
		return
	}
	if w.gscan != nil && w.inCall {
		w.gscan.WorldOps++
	}
	upd := func(f func(c *v1.Node)) {
		if n == nil {
			return
		}
		c := n.DeepCopy()
		f(c)
		w.kube.putNode(c, "")
		g.ev("op-" + name)
	}
	switch name {
	case "cordon":
		if v%5 == 4 { // not a cordon: the kubelet stops reporting, Ready turns False/Unknown (or recovers)
			upd(func(c *v1.Node) {
				st := []v1.ConditionStatus{v1.ConditionFalse, v1.ConditionUnknown, v1.ConditionTrue}[(v>>4)%3]
				c.Status.Conditions = []v1.NodeCondition{{Type: v1.NodeReady, Status: st}}
			})
			w.stats.World["node-ready-condition-changed"]++
			break
		}
		upd(func(c *v1.Node) { c.Spec.Unschedulable = true })
	case "uncordon":
		// prefer a cordoned node
		for _, x := range g.groupNodes() {
			if x.Spec.Unschedulable {
				n = x
				break
			}
		}
		upd(func(c *v1.Node) { c.Spec.Unschedulable = false })
	case "annotate":
		upd(func(c *v1.Node) {
			if c.Annotations == nil {
				c.Annotations = map[string]string{}
			}
			c.Annotations[noDelete] = []string{"true", "keep", "", "false", "\nheld by ops", " ", "\r\nticket-123", "line1\nline2"}[v%8]
		})
	case "unannotate":
		for _, x := range g.groupNodes() {
			if _, ok := x.Annotations[noDelete]; ok {
				n = x
				break
			}
		}
		upd(func(c *v1.Node) { delete(c.Annotations, noDelete) })
	case "force-taint":
		upd(func(c *v1.Node) {
			if !hasTaintKey(c, forceTaint) {
				c.Spec.Taints = append(c.Spec.Taints, v1.Taint{Key: forceTaint, Value: "op", Effect: []v1.TaintEffect{v1.TaintEffectNoSchedule, v1.TaintEffectNoExecute}[v%2]})
			}
		})
	case "ext-taint": // another writer (an older escalator, a human) adds the escalator taint
		upd(func(c *v1.Node) {
			if hasTaintKey(c, escTaint) {
				return
			}
			var val string
			switch v % 4 {
			case 0:
				val = extTaintValues[(v>>8)%uint32(len(extTaintValues))]
			case 1: // plausible stamp in the past
				val = strconv.FormatInt(time.Now().Add(-time.Duration((v>>8)%7200)*time.Second).Unix(), 10)
			case 2: // stamp from a clock that runs ahead
				val = strconv.FormatInt(time.Now().Add(time.Duration((v>>8)%7200)*time.Second).Unix(), 10)
			case 3:
				val = strconv.FormatInt(time.Now().Unix(), 10)
			}
			c.Spec.Taints = append(c.Spec.Taints, v1.Taint{Key: escTaint, Value: val, Effect: v1.TaintEffectNoSchedule})
		})
	case "ext-untaint":
		upd(func(c *v1.Node) {
			var ts []v1.Taint
			for _, t := range c.Spec.Taints {
				if t.Key != escTaint {
					ts = append(ts, t)
				}
			}
			c.Spec.Taints = ts
		})
	case "foreign-taint":
		upd(func(c *v1.Node) {
			keys := []string{"dedicated", "node.kubernetes.io/unreachable", "example.com/maint", escTaint}
			k := keys[v%4]
			eff := []v1.TaintEffect{v1.TaintEffectNoSchedule, v1.TaintEffectPreferNoSchedule, v1.TaintEffectNoExecute}[(v>>4)%3]
			if k == escTaint { // a second taint under escalator's key needs another effect
				return
			}
			for _, t := range c.Spec.Taints {
				if t.Key == k && t.Effect == eff {
					return
				}
			}
			t := v1.Taint{Key: k, Value: "x", Effect: eff}
			if (v>>8)%2 == 0 {
				c.Spec.Taints = append(c.Spec.Taints, t)
			} else {
				c.Spec.Taints = append([]v1.Taint{t}, c.Spec.Taints...)
			}
		})
	case "remove-taint":
		upd(func(c *v1.Node) {
			for i, t := range c.Spec.Taints {
				if t.Key != escTaint && t.Key != forceTaint {
					c.Spec.Taints = append(c.Spec.Taints[:i:i], c.Spec.Taints[i+1:]...)
					return
				}
			}
		})
	case "spot-loss":
		if n == nil {
			return
		}
		for _, id := range w.aws.sortedInstIDs() {
			i := w.aws.insts[id]
			if i.NodeName == n.Name && i.Owner == g.name && i.Life != "Terminating" {
				i.Life, i.EC2State = "Terminating", "terminated"
				i.GoneAt = time.Now().Add(w.drawGone(i))
				g.instanceTerminated(i)
				g.ev("spot-loss")
			}
		}
	case "asg-edit":
		asg := w.aws.asgs[g.cfg.ASG]
		switch v % 6 {
		case 5: // pin the group: min = max = desired (a valid ASG definition)
			asg.Min, asg.Max = asg.Desired, asg.Desired
			if asg.Max < 1 {
				asg.Max = 1
			}
			g.ev("asg-pinned")
		case 0:
			if asg.Max > asg.Min+1 && asg.Max-1 >= asg.Desired {
				asg.Max--
			}
		case 1:
			asg.Max += int64(1 + (v>>4)%3)
		case 2:
			if asg.Min > 0 {
				asg.Min--
			}
		case 3:
			if asg.Min+1 <= asg.Desired && asg.Min+1 < asg.Max {
				asg.Min++
			}
		case 4:
			d := asg.Desired + int64((v>>4)%3) - 1
			if d >= asg.Min && d <= asg.Max {
				asg.Desired = d
			}
		}
		g.ev("asg-edit")
	case "node-delete":
		if n != nil {
			w.kube.deleteNode(n.Name)
			w.onNodeDeleted(n.Name, false)
			g.ev("op-node-delete")
		}
	case "resize": // a reservation/config rollout changes what every node of the group offers
		f := []int64{2, 3, 1}[v%3]
		d := []int64{1, 2, 2}[v%3]
		g.cfg.NodeCPU = g.cfg.NodeCPU * f / d
		g.cfg.NodeMem = g.cfg.NodeMem * f / d
		if g.cfg.NodeCPU < 100 {
			g.cfg.NodeCPU = 100
		}
		for _, x := range g.groupNodes() {
			if len(x.Status.Allocatable) == 0 {
				continue
			}
			c := x.DeepCopy()
			c.Status.Allocatable[v1.ResourceCPU] = *resource.NewMilliQuantity(g.cfg.NodeCPU, resource.DecimalSI)
			c.Status.Allocatable[v1.ResourceMemory] = *resource.NewQuantity(g.cfg.NodeMem, resource.BinarySI)
			w.kube.putNode(c, "")
		}
		g.ev("op-resize")
	case "force-taint-many": // an operator rotating several nodes at once
		k := 0
		for _, x := range g.groupNodes() {
			if k >= 2+int(v%2) {
				break
			}
			if hasTaintKey(x, forceTaint) || x.Spec.Unschedulable {
				continue
			}
			c := x.DeepCopy()
			c.Spec.Taints = append(c.Spec.Taints, v1.Taint{Key: forceTaint, Value: "rotate", Effect: v1.TaintEffectNoExecute})
			w.kube.putNode(c, "")
			k++
		}
		g.ev("op-force-taint-many")
	case "relabel":
		upd(func(c *v1.Node) {
			if c.Labels == nil {
				c.Labels = map[string]string{}
			}
			switch {
			case c.Labels[g.cfg.LabelKey] != g.cfg.LabelValue:
				// back home
				for _, og := range w.groups {
					if og != g && og.cfg.LabelKey != g.cfg.LabelKey {
						delete(c.Labels, og.cfg.LabelKey)
					}
				}
				c.Labels[g.cfg.LabelKey] = g.cfg.LabelValue
			case v%3 == 2 && len(w.groups) > 1 && !w.cfg.NoMislabel:
				// mislabelled into ANOTHER group: its instance stays in this group's ASG
				og := w.groups[(g.cfg.Idx+1+int(v>>4)%(len(w.groups)-1))%len(w.groups)]
				for _, cand := range w.groups {
					if cand != g && cand.cfg.Idx == (g.cfg.Idx+1+int(v>>4)%(len(w.groups)-1))%len(w.groups) {
						og = cand
					}
				}
				if og == g {
					c.Labels[g.cfg.LabelKey] = "moved"
					break
				}
				if og.cfg.LabelKey == g.cfg.LabelKey {
					c.Labels[g.cfg.LabelKey] = og.cfg.LabelValue
				} else {
					c.Labels[g.cfg.LabelKey] = "moved"
					c.Labels[og.cfg.LabelKey] = og.cfg.LabelValue
				}
				w.stats.World["node-mislabelled-into-another-group"]++
			default:
				c.Labels[g.cfg.LabelKey] = "moved"
			}
		})
	}
}

// interleave is step 2 of a yield point: the rest of the world acts between
// two consecutive API calls of a scan, biased towards the call's target.
func (w *World) interleave(c *Call) {
	g := w.groupByName(c.Group)
	if g == nil {
		return
	}
	s := w.ch.S("il/" + g.name + g.salt)
	if !s.Chance(w.cfg.InterleaveP) {
		return
	}
	if !w.cfg.Actors["operator"] {
		return
	}
	w.inCall = true
	prefer := w.lastTerminateNode[g.name] // other writers tend to act on the node in play
	if c.Op == OpGet || c.Op == OpPut || c.Op == OpDelete {
		prefer = c.Target
	}
	w.stats.World["interleaved"]++
	if w.gscan != nil {
		w.gscan.WorldOps++
	}
	g.operatorAction(s, prefer)
	w.inCall = false
}
