package harness

// Simulated kube-apiserver (truth store + http.RoundTripper) and simulated
// watch caches behind client-go's lister interfaces.

import (
	"bytes"
	"encoding/json"
	"errors"
	"fmt"
	"io"
	"net/http"
	"sort"
	"strconv"
	"strings"
	"sync"
	"time"

	jsonpatch "gopkg.in/evanphx/json-patch.v4"
	v1 "k8s.io/api/core/v1"
	metav1 "k8s.io/apimachinery/pkg/apis/meta/v1"
	"k8s.io/apimachinery/pkg/labels"
	"k8s.io/apimachinery/pkg/util/strategicpatch"
	"k8s.io/apimachinery/pkg/util/validation"
	v1lister "k8s.io/client-go/listers/core/v1"
)

const ownerNone = "~none"

type cacheEvent struct {
	del  bool
	key  string
	node *v1.Node
	pod  *v1.Pod
}

// objCache is one owner's slice of a watch cache: applied objects plus the
// FIFO of events not applied yet.
// The controller is handed the SHARED objects, as a real informer does (mutating them corrupts the cache
// until the next watch event replaces the object); the oracle's view is built from the PRISTINE copies,
// i.e. what the watch actually delivered.
type objCache struct {
	nodes map[string]*v1.Node
	pods  map[string]*v1.Pod
	nodesPristine map[string]*v1.Node
	podsPristine  map[string]*v1.Pod
	queue []cacheEvent
	stallUntil time.Time
}

func newObjCache() *objCache {
	return &objCache{nodes: map[string]*v1.Node{}, pods: map[string]*v1.Pod{}, nodesPristine: map[string]*v1.Node{}, podsPristine: map[string]*v1.Pod{}}
}

func (c *objCache) apply(n int) int {
	if n > len(c.queue) {
		n = len(c.queue)
	}
	for _, e := range c.queue[:n] {
		switch {
		case e.node != nil && !e.del:
			c.nodesPristine[e.key] = e.node
			c.nodes[e.key] = e.node.DeepCopy()
		case e.node != nil && e.del:
			delete(c.nodes, e.key)
			delete(c.nodesPristine, e.key)
		case e.pod != nil && !e.del:
			c.podsPristine[e.key] = e.pod
			c.pods[e.key] = e.pod.DeepCopy()
		case e.pod != nil && e.del:
			delete(c.pods, e.key)
			delete(c.podsPristine, e.key)
		}
	}
	c.queue = c.queue[n:]
	return n
}

type Kube struct {
	w   *World
	unmodelled []string // requests the simulated API server has no model for
	mu  sync.Mutex
	rev int64

	nodes     map[string]*v1.Node
	nodeOwner map[string]string
	pods      map[string]*v1.Pod // key = name (single namespace "default" plus "kube-system" prefixing in name)
	podOwner  map[string]string

	nodeCache map[string]*objCache // by owner
	podCache  map[string]*objCache

	listErrNext map[string]bool

	// shared object handed to the controller -> pristine copy of the same cache entry (rebuilt at every List)
	pristineOfNode map[*v1.Node]*v1.Node
	pristineOfPod  map[*v1.Pod]*v1.Pod
}

func newKube(w *World) *Kube {
	return &Kube{w: w, nodes: map[string]*v1.Node{}, nodeOwner: map[string]string{}, pods: map[string]*v1.Pod{}, podOwner: map[string]string{},
		nodeCache: map[string]*objCache{}, podCache: map[string]*objCache{}}
}

func (k *Kube) nextRV() string {
	k.rev++
	return strconv.FormatInt(k.rev, 10)
}

func (k *Kube) ncache(owner string) *objCache {
	c, ok := k.nodeCache[owner]
	if !ok {
		c = newObjCache()
		k.nodeCache[owner] = c
	}
	return c
}

func (k *Kube) pcache(owner string) *objCache {
	c, ok := k.podCache[owner]
	if !ok {
		c = newObjCache()
		k.podCache[owner] = c
	}
	return c
}

// ---- truth-store mutations (world actors and the API both end up here) ----

func (k *Kube) putNode(n *v1.Node, owner string) {
	n.ResourceVersion = k.nextRV()
	n.TypeMeta = metav1.TypeMeta{}
	k.nodes[n.Name] = n
	if owner != "" {
		k.nodeOwner[n.Name] = owner
	}
	o := k.nodeOwner[n.Name]
	k.ncache(o).queue = append(k.ncache(o).queue, cacheEvent{key: n.Name, node: n.DeepCopy()})
}

func (k *Kube) deleteNode(name string) bool {
	n, ok := k.nodes[name]
	if !ok {
		return false
	}
	delete(k.nodes, name)
	o := k.nodeOwner[name]
	k.ncache(o).queue = append(k.ncache(o).queue, cacheEvent{key: name, node: n, del: true})
	return true
}

func (k *Kube) putPod(p *v1.Pod, owner string) {
	p.ResourceVersion = k.nextRV()
	k.pods[p.Name] = p
	if owner != "" {
		k.podOwner[p.Name] = owner
	}
	o := k.podOwner[p.Name]
	// the pod informer's field selector (status.phase!=Succeeded,status.phase!=Failed): a pod reaching a terminal
	// phase leaves the watch cache (the server sends a DELETED event for the selected set)
	if p.Status.Phase == v1.PodSucceeded || p.Status.Phase == v1.PodFailed {
		k.pcache(o).queue = append(k.pcache(o).queue, cacheEvent{key: p.Name, pod: p.DeepCopy(), del: true})
		return
	}
	k.pcache(o).queue = append(k.pcache(o).queue, cacheEvent{key: p.Name, pod: p.DeepCopy()})
}

func (k *Kube) deletePod(name string) {
	p, ok := k.pods[name]
	if !ok {
		return
	}
	delete(k.pods, name)
	o := k.podOwner[name]
	k.pcache(o).queue = append(k.pcache(o).queue, cacheEvent{key: name, pod: p, del: true})
}

func (k *Kube) sortedNodeNames() []string {
	out := make([]string, 0, len(k.nodes))
	for n := range k.nodes {
		out = append(out, n)
	}
	sort.Strings(out)
	return out
}

func (k *Kube) sortedPodNames() []string {
	out := make([]string, 0, len(k.pods))
	for n := range k.pods {
		out = append(out, n)
	}
	sort.Strings(out)
	return out
}

func (k *Kube) owners() []string {
	set := map[string]bool{}
	for o := range k.nodeCache {
		set[o] = true
	}
	for o := range k.podCache {
		set[o] = true
	}
	out := make([]string, 0, len(set))
	for o := range set {
		out = append(out, o)
	}
	sort.Strings(out)
	return out
}

// syncAllCaches is what a fresh LIST by a new process does.
func (k *Kube) syncAllCaches() {
	for _, c := range k.nodeCache {
		c.apply(len(c.queue))
		c.stallUntil = time.Time{}
	}
	for _, c := range k.podCache {
		c.apply(len(c.queue))
		c.stallUntil = time.Time{}
	}
}

// pristine copies are looked up by the identity of the shared object that was listed (names can repeat:
// a lagging cache of one owner may still hold a pod whose name another owner's pod has taken over)
func (k *Kube) pristineNode(n *v1.Node) *v1.Node { return k.pristineOfNode[n] }
func (k *Kube) pristinePod(p *v1.Pod) *v1.Pod     { return k.pristineOfPod[p] }

// ---- simulated listers (v1lister interfaces over the caches) ---------------

type simNodeLister struct{ k *Kube }
type simPodLister struct{ k *Kube }

var _ v1lister.NodeLister = (*simNodeLister)(nil)
var _ v1lister.PodLister = (*simPodLister)(nil)

func (l *simNodeLister) Get(name string) (*v1.Node, error) {
	for _, o := range l.k.owners() {
		if n, ok := l.k.ncache(o).nodes[name]; ok {
			return n.DeepCopy(), nil
		}
	}
	return nil, fmt.Errorf("node %q not found", name)
}

// advance applies a drawn number of pending events to the current group's
// caches (lag), everything for the unowned population.
func (k *Kube) advance(kind string) {
	w := k.w
	g := w.ctx
	now := time.Now()
	adv := func(c *objCache, owner string) {
		if len(c.queue) == 0 {
			return
		}
		if owner == ownerNone || !w.cfg.CacheLag {
			c.apply(len(c.queue))
			return
		}
		if now.Before(c.stallUntil) {
			w.stats.Fault("cache-stalled")
			return
		}
		s := w.ch.S("cache/" + owner + "/" + kind)
		switch s.Pick(6, 2, 1, 1) {
		case 0:
			c.apply(len(c.queue))
		case 1: // lag: leave some events pending
			left := 1 + s.Intn(len(c.queue))
			c.apply(len(c.queue) - left)
			w.stats.Fault("cache-lag")
		case 2: // stall for a while
			c.stallUntil = now.Add(time.Duration(1+s.Intn(4)) * w.cfg.ScanInterval)
			w.stats.Fault("cache-stall")
		case 3:
			w.stats.Fault("cache-lag-all")
		}
	}
	if kind == "nodes" {
		adv(k.ncache(ownerNone), ownerNone)
		if g != "" {
			adv(k.ncache(g), g)
		}
	} else {
		adv(k.pcache(ownerNone), ownerNone)
		if g != "" {
			adv(k.pcache(g), g)
		}
	}
}

func (l *simNodeLister) List(sel labels.Selector) ([]*v1.Node, error) {
	k := l.k
	w := k.w
	if w.listFault("nodes") {
		return nil, errors.New("sim: injected node list error")
	}
	k.advance("nodes")
	var out, pristine []*v1.Node
	for _, o := range k.owners() {
		c := k.ncache(o)
		names := make([]string, 0, len(c.nodes))
		for n := range c.nodes {
			names = append(names, n)
		}
		sort.Strings(names)
		for _, i := range w.listOrder(o, "nodes", len(names)) {
			out = append(out, c.nodes[names[i]])
			pristine = append(pristine, c.nodesPristine[names[i]])
		}
	}
	k.pristineOfNode = make(map[*v1.Node]*v1.Node, len(out))
	for i := range out {
		k.pristineOfNode[out[i]] = pristine[i]
	}
	if w.gscan != nil && !w.gscan.NodesListed {
		w.gscan.AllNodes = pristine
	}
	// the selector is honoured as a cache-backed lister does; the population recorded above is always complete
	if sel != nil && !sel.Empty() {
		kept := out[:0:0]
		for _, n := range out {
			if sel.Matches(labels.Set(n.Labels)) {
				kept = append(kept, n)
			}
		}
		out = kept
	}
	return out, nil
}

// Pods is the namespaced view of the same cache.
func (l *simPodLister) Pods(ns string) v1lister.PodNamespaceLister { return &simPodNSLister{l: l, ns: ns} }

type simPodNSLister struct {
	l  *simPodLister
	ns string
}

func (n *simPodNSLister) List(sel labels.Selector) ([]*v1.Pod, error) {
	all, err := n.l.List(sel)
	if err != nil {
		return nil, err
	}
	var out []*v1.Pod
	for _, p := range all {
		if p.Namespace == n.ns {
			out = append(out, p)
		}
	}
	return out, nil
}

func (n *simPodNSLister) Get(name string) (*v1.Pod, error) {
	for _, o := range n.l.k.owners() {
		if p, ok := n.l.k.pcache(o).pods[name]; ok && p.Namespace == n.ns {
			return p, nil
		}
	}
	return nil, fmt.Errorf("pod %q not found", name)
}

func (l *simPodLister) List(sel labels.Selector) ([]*v1.Pod, error) {
	k := l.k
	w := k.w
	if w.listFault("pods") {
		return nil, errors.New("sim: injected pod list error")
	}
	k.advance("pods")
	var out, pristine []*v1.Pod
	for _, o := range k.owners() {
		c := k.pcache(o)
		names := make([]string, 0, len(c.pods))
		for n := range c.pods {
			names = append(names, n)
		}
		sort.Strings(names)
		for _, i := range w.listOrder(o, "pods", len(names)) {
			out = append(out, c.pods[names[i]])
			pristine = append(pristine, c.podsPristine[names[i]])
		}
	}
	k.pristineOfPod = make(map[*v1.Pod]*v1.Pod, len(out))
	for i := range out {
		k.pristineOfPod[out[i]] = pristine[i]
	}
	if w.gscan != nil && !w.gscan.PodsListed {
		w.gscan.AllPods = pristine
	}
	if sel != nil && !sel.Empty() {
		kept := out[:0:0]
		for _, p := range out {
			if sel.Matches(labels.Set(p.Labels)) {
				kept = append(kept, p)
			}
		}
		out = kept
	}
	return out, nil
}

// ---- the API server as an http.RoundTripper -------------------------------

type blockBody struct {
	ch   chan struct{}
	once sync.Once
}

func (b *blockBody) Read(p []byte) (int, error) { <-b.ch; return 0, io.EOF }
func (b *blockBody) Close() error               { b.once.Do(func() { close(b.ch) }); return nil }

func jsonResp(req *http.Request, code int, obj interface{}) *http.Response {
	data, err := json.Marshal(obj)
	if err != nil {
		panic(err)
	}
	return &http.Response{
		StatusCode: code, Status: fmt.Sprintf("%d %s", code, http.StatusText(code)),
		Proto: "HTTP/1.1", ProtoMajor: 1, ProtoMinor: 1,
		Header:        http.Header{"Content-Type": []string{"application/json"}},
		Body:          io.NopCloser(bytes.NewReader(data)),
		ContentLength: int64(len(data)), Request: req,
	}
}

func statusResp(req *http.Request, code int, reason metav1.StatusReason, msg string, retryAfter int) *http.Response {
	st := &metav1.Status{TypeMeta: metav1.TypeMeta{Kind: "Status", APIVersion: "v1"}, Status: metav1.StatusFailure, Reason: reason, Code: int32(code), Message: msg}
	if retryAfter > 0 {
		st.Details = &metav1.StatusDetails{RetryAfterSeconds: int32(retryAfter)}
	}
	r := jsonResp(req, code, st)
	if retryAfter > 0 {
		r.Header.Set("Retry-After", strconv.Itoa(retryAfter))
	}
	return r
}

func (k *Kube) RoundTrip(req *http.Request) (*http.Response, error) {
	path := strings.TrimPrefix(req.URL.Path, "/api/v1/")
	parts := strings.Split(path, "/")
	q := req.URL.Query()
	switch {
	case len(parts) == 1 && req.Method == "GET" && (parts[0] == "nodes" || parts[0] == "pods"):
		return k.serveListWatch(req, parts[0], q.Get("watch") == "true" || q.Get("watch") == "1", q.Get("fieldSelector"))
	case len(parts) == 2 && parts[0] == "nodes":
		var body []byte
		if req.Body != nil {
			body, _ = io.ReadAll(req.Body)
			req.Body.Close()
		}
		return k.serveNode(req, parts[1], body)
	}
	if strings.Contains(req.URL.Path, "/events") {
		// Events are fire-and-forget reporting: accepted and dropped
		// (may arrive on a goroutine of the code's event broadcaster: touches no shared state of the simulation)
		var body []byte
		if req.Body != nil {
			body, _ = io.ReadAll(req.Body)
			req.Body.Close()
		}
		ev := &v1.Event{}
		_ = json.Unmarshal(body, ev)
		ev.TypeMeta = metav1.TypeMeta{Kind: "Event", APIVersion: "v1"}
		return jsonResp(req, ifi(req.Method == "POST", 201, 200), ev), nil
	}
	// anything else is outside what the simulated API server models: the run is reported as machinery
	// trouble, not answered with a made-up status the code under test would then act on
	if len(k.unmodelled) < 5 {
		k.unmodelled = append(k.unmodelled, req.Method+" "+req.URL.Path)
	}
	return statusResp(req, 404, metav1.StatusReasonNotFound, "sim: unknown path "+req.URL.Path, 0), nil
}

func ifi(c bool, a, b int) int {
	if c {
		return a
	}
	return b
}

func (k *Kube) serveListWatch(req *http.Request, kind string, watch bool, fieldSel string) (*http.Response, error) {
	k.mu.Lock()
	defer k.mu.Unlock()
	if watch {
		return &http.Response{StatusCode: 200, Status: "200 OK", Proto: "HTTP/1.1", ProtoMajor: 1, ProtoMinor: 1,
			Header: http.Header{"Content-Type": []string{"application/json"}}, Body: &blockBody{ch: make(chan struct{})}, Request: req}, nil
	}
	// One virtual millisecond before the LIST is answered: the informer goroutine is then durably blocked, so
	// WaitForCacheSync's immediate first poll always sees "not synced" and start-up costs exactly 100 virtual ms
	// whatever the real scheduler does (otherwise 0 or 100 ms depending on CPU load: a replay-breaking race).
	k.mu.Unlock()
	time.Sleep(time.Millisecond)
	k.mu.Lock()
	rv := strconv.FormatInt(k.rev, 10)
	// selectors as the real server applies them (the informers of today's code use none but the two phase terms)
	var lsel labels.Selector
	if ls := req.URL.Query().Get("labelSelector"); ls != "" {
		if parsed, err := labels.Parse(ls); err == nil {
			lsel = parsed
		} else {
			return statusResp(req, 400, metav1.StatusReasonBadRequest, "sim: bad labelSelector: "+err.Error(), 0), nil
		}
	}
	fieldOK := func(name, nodeName, phase string) bool {
		for _, term := range strings.Split(fieldSel, ",") {
			term = strings.TrimSpace(term)
			if term == "" {
				continue
			}
			neg := strings.Contains(term, "!=")
			kv := strings.SplitN(strings.Replace(strings.Replace(term, "!=", "=", 1), "==", "=", 1), "=", 2)
			if len(kv) != 2 {
				continue
			}
			var have string
			switch kv[0] {
			case "metadata.name":
				have = name
			case "spec.nodeName":
				have = nodeName
			case "status.phase":
				have = phase
			default:
				continue
			}
			if (have == kv[1]) == neg {
				return false
			}
		}
		return true
	}
	if kind == "nodes" {
		l := &v1.NodeList{TypeMeta: metav1.TypeMeta{Kind: "NodeList", APIVersion: "v1"}, ListMeta: metav1.ListMeta{ResourceVersion: rv}}
		for _, n := range k.sortedNodeNames() {
			nd := k.nodes[n]
			if lsel != nil && !lsel.Matches(labels.Set(nd.Labels)) || !fieldOK(nd.Name, "", "") {
				continue
			}
			l.Items = append(l.Items, *nd)
		}
		return jsonResp(req, 200, l), nil
	}
	l := &v1.PodList{TypeMeta: metav1.TypeMeta{Kind: "PodList", APIVersion: "v1"}, ListMeta: metav1.ListMeta{ResourceVersion: rv}}
	for _, n := range k.sortedPodNames() {
		p := k.pods[n]
		if lsel != nil && !lsel.Matches(labels.Set(p.Labels)) || !fieldOK(p.Name, p.Spec.NodeName, string(p.Status.Phase)) {
			continue
		}
		l.Items = append(l.Items, *p)
	}
	return jsonResp(req, 200, l), nil
}

type simNetErr struct{ msg string }

func (e *simNetErr) Error() string { return e.msg }

// patchNode applies a PATCH body the way the API server does for the three patch types a typed client can
// send. The result carries a resourceVersion only if the patch named one (that is then its precondition).
func patchNode(stored *v1.Node, patch []byte, contentType string) (*v1.Node, error) {
	raw, err := json.Marshal(stored)
	if err != nil {
		return nil, err
	}
	var out []byte
	named := false
	switch {
	case strings.HasPrefix(contentType, "application/json-patch+json"):
		ops, err := jsonpatch.DecodePatch(patch)
		if err != nil {
			return nil, err
		}
		if out, err = ops.Apply(raw); err != nil {
			return nil, err
		}
		named = bytes.Contains(patch, []byte("/metadata/resourceVersion"))
	case strings.HasPrefix(contentType, "application/strategic-merge-patch+json"):
		if out, err = strategicpatch.StrategicMergePatch(raw, patch, v1.Node{}); err != nil {
			return nil, err
		}
	default: // application/merge-patch+json
		if out, err = jsonpatch.MergePatch(raw, patch); err != nil {
			return nil, err
		}
	}
	if !named {
		var p struct {
			Metadata struct {
				ResourceVersion *string `json:"resourceVersion"`
			} `json:"metadata"`
		}
		if json.Unmarshal(patch, &p) == nil && p.Metadata.ResourceVersion != nil {
			named = true
		}
	}
	n := &v1.Node{}
	if err := json.Unmarshal(out, n); err != nil {
		return nil, err
	}
	if !named {
		n.ResourceVersion = ""
	}
	return n, nil
}

func validateTaints(ts []v1.Taint) string {
	seen := map[string]bool{}
	for _, t := range ts {
		if t.Key == "" {
			return "taint key must not be empty"
		}
		switch t.Effect {
		case v1.TaintEffectNoSchedule, v1.TaintEffectPreferNoSchedule, v1.TaintEffectNoExecute:
		default:
			return fmt.Sprintf("unsupported taint effect %q", t.Effect)
		}
		id := t.Key + "\x00" + string(t.Effect)
		if seen[id] {
			return fmt.Sprintf("taints must be unique by key and effect pair: %s:%s", t.Key, t.Effect)
		}
		seen[id] = true
		if errs := validation.IsValidLabelValue(t.Value); len(errs) > 0 {
			return "invalid taint value: " + strings.Join(errs, "; ")
		}
		if errs := validation.IsQualifiedName(t.Key); len(errs) > 0 {
			return "invalid taint key: " + strings.Join(errs, "; ")
		}
	}
	return ""
}

// serveNode serves GET/PUT/DELETE /api/v1/nodes/{name}: the only requests
// escalator's own client issues. Every one is a yield point and a journal entry.
func (k *Kube) serveNode(req *http.Request, name string, body []byte) (*http.Response, error) {
	w := k.w
	var op string
	switch req.Method {
	case "GET":
		op = OpGet
	case "PUT":
		op = OpPut
	case "DELETE":
		op = OpDelete
	case "PATCH":
		op = OpPatch
	default:
		return statusResp(req, 405, metav1.StatusReasonMethodNotAllowed, "sim: method", 0), nil
	}
	c := w.beginCall(op, name)
	var putNode *v1.Node
	if op == OpPut {
		putNode = &v1.Node{}
		if err := json.Unmarshal(body, putNode); err != nil {
			w.endCall(c, false, "bad body")
			return statusResp(req, 400, metav1.StatusReasonBadRequest, "sim: cannot decode body: "+err.Error(), 0), nil
		}
		c.NodeBody = putNode.DeepCopy()
		c.PrevGet = w.lastGet[name]
	}
	if op == OpPatch {
		c.PrevGet = w.lastGet[name]
		if stored, ok := k.nodes[name]; ok {
			merged, err := patchNode(stored, body, req.Header.Get("Content-Type"))
			if err != nil {
				w.endCall(c, false, "bad patch")
				return statusResp(req, 400, metav1.StatusReasonBadRequest, "sim: cannot apply patch: "+err.Error(), 0), nil
			}
			putNode = merged
			c.NodeBody = merged.DeepCopy()
		}
	}
	fault := w.drawFault(c)
	if stored, ok := k.nodes[name]; ok {
		c.Stored = stored.DeepCopy()
	}

	fail := func(code int, reason metav1.StatusReason, msg string, retry int) (*http.Response, error) {
		c.HTTPStatus = code
		w.endCall(c, false, fmt.Sprintf("%d %s", code, msg))
		return statusResp(req, code, reason, msg, retry), nil
	}
	switch fault {
	case FErrBefore:
		return fail(500, metav1.StatusReasonInternalError, "sim: injected internal error", 0)
	case FThrottle:
		// client-go retries 429 + Retry-After by itself; each attempt is a call.
		return fail(429, metav1.StatusReasonTooManyRequests, "sim: injected throttle", 1)
	case FConflict:
		if op == OpPut {
			return fail(409, metav1.StatusReasonConflict, "sim: injected conflict", 0)
		}
		c.Fault = FNone
	case FNotFound:
		return fail(404, metav1.StatusReasonNotFound, "sim: injected not found", 0)
	}

	stored, ok := k.nodes[name]
	if !ok {
		return fail(404, metav1.StatusReasonNotFound, fmt.Sprintf("nodes %q not found", name), 0)
	}
	var result *v1.Node
	switch op {
	case OpGet:
		result = stored.DeepCopy()
		c.GetBody = result.DeepCopy()
	case OpPut, OpPatch:
		if putNode == nil || putNode.Name != name {
			return fail(400, metav1.StatusReasonBadRequest, "name mismatch", 0)
		}
		if putNode.ResourceVersion != "" && putNode.ResourceVersion != stored.ResourceVersion {
			c.Fault = ifs(c.Fault == "", "409-natural", c.Fault)
			return fail(409, metav1.StatusReasonConflict, "Operation cannot be fulfilled on nodes \""+name+"\": the object has been modified", 0)
		}
		if msg := validateTaints(putNode.Spec.Taints); msg != "" {
			return fail(422, metav1.StatusReasonInvalid, "Node \""+name+"\" is invalid: spec.taints: "+msg, 0)
		}
		nn := putNode.DeepCopy()
		nn.Status = *stored.Status.DeepCopy() // main resource updates do not touch status
		nn.CreationTimestamp = stored.CreationTimestamp
		nn.UID = stored.UID
		k.putNode(nn, "")
		result = nn.DeepCopy()
	case OpDelete:
		// DeleteOptions preconditions, as the real server checks them.
		if len(body) > 0 {
			var do metav1.DeleteOptions
			if err := json.Unmarshal(body, &do); err == nil && do.Preconditions != nil {
				pc := do.Preconditions
				if (pc.UID != nil && *pc.UID != stored.UID) || (pc.ResourceVersion != nil && *pc.ResourceVersion != stored.ResourceVersion) {
					c.Fault = ifs(c.Fault == "", "409-natural", c.Fault)
					return fail(409, metav1.StatusReasonConflict, "Operation cannot be fulfilled on nodes \""+name+"\": precondition failed", 0)
				}
			}
		}
		k.deleteNode(name)
		w.onNodeDeleted(name, true)
		result = stored.DeepCopy()
	}
	if fault == FErrAfter {
		c.HTTPStatus = 0
		w.endCall(c, true, "sim: connection lost after the request was applied")
		return nil, &simNetErr{"sim: connection reset (request was applied)"}
	}
	c.HTTPStatus = 200
	if op == OpGet {
		w.lastGet[name] = result.DeepCopy()
	}
	w.endCall(c, op != OpGet, "")
	result.TypeMeta = metav1.TypeMeta{Kind: "Node", APIVersion: "v1"}
	return jsonResp(req, 200, result), nil
}
