package harness

// Directed enumeration (fault_enumeration level for C18; also serves C17, C19):
// every fleet size of the boundary set x every single failure point, and every
// node-list length x foreign position x failing terminate call.

import (
	"encoding/json"
	"strconv"
	"strings"
	"testing"
)

func enumerateCases(prop, tier string) []ProvCase {
	var cases []ProvCase
	sizes := boundarySizes
	if tier != "thorough" {
		sizes = []int{1, 2, 19, 20, 21, 40, 41, 1001, 2500}
	}
	if prop == "C17" || prop == "C18" || prop == "C20" {
		for _, n := range sizes {
			batches := (n + 19) / 20
			for li, life := range []string{"", "spot", "on-demand"} {
				cases = append(cases, ProvCase{Kind: "fleet", Size: n, Lifecycle: life, Overrides: li, Failure: "none"})
			}
			cases = append(cases, ProvCase{Kind: "fleet", Size: n, Failure: "never-ready"})
			cases = append(cases, ProvCase{Kind: "fleet", Size: n, Failure: "never-ready", K2: 1})
			cases = append(cases, ProvCase{Kind: "fleet", Size: n, Failure: "fleet-error"})
			cases = append(cases, ProvCase{Kind: "fleet", Size: n, Failure: "fleet-errors-only"})
			cases = append(cases, ProvCase{Kind: "fleet", Size: n, Failure: "fleet-errors-plus"})
			cases = append(cases, ProvCase{Kind: "fleet", Size: n, Failure: "status-error", K: 1})
			if n > 20 && n <= 60 && (prop == "C17" || prop == "C04") {
				for k := 2; k <= batches; k++ {
					cases = append(cases, ProvCase{Kind: "fleet", Size: n, Failure: "attach-then-over-max", K: k})
				}
			}
			if n <= 21 {
				cases = append(cases, ProvCase{Kind: "fleet", Size: n, Failure: "alternating", K: 1})
			}
			if n <= 41 {
				cases = append(cases, ProvCase{Kind: "fleet", Size: n, Failure: "never-ready", Repeat: 3})
				cases = append(cases, ProvCase{Kind: "fleet", Size: n, Failure: "attach", K: batches, Repeat: 3})
			}
			ks := []int{}
			for k := 1; k <= batches; k++ {
				if tier == "thorough" || k <= 3 || k >= batches-1 || k == batches/2 {
					ks = append(ks, k)
				}
			}
			for _, k := range ks {
				cases = append(cases, ProvCase{Kind: "fleet", Size: n, Failure: "attach", K: k})
				cases = append(cases, ProvCase{Kind: "fleet", Size: n, Failure: "attach-after", K: k})
				if n > 20 {
					cases = append(cases, ProvCase{Kind: "fleet", Size: n, Failure: "attach", K: k, K2: 1, Lifecycle: "spot"})
				}
				if n > 1000 && k == 1 {
					cases = append(cases, ProvCase{Kind: "fleet", Size: n, Failure: "attach", K: k, K2: 2})
				}
			}
		}
	}
	if prop == "C12" || prop == "C18" || prop == "C20" {
		for _, k := range []int{1, 2} {
			for _, n := range []int{1, 3, 21} {
				cases = append(cases, ProvCase{Kind: "fleet-cross", Size: n, K: k})
			}
		}
	}
	if prop == "C07" || prop == "C17" {
		// force-removal batch (k-th terminate failing or none) followed by a scale-up in the same scan
		for _, desired := range []int{4, 7} {
			for n := 1; n <= 3; n++ {
				for k := 0; k <= n; k++ {
					for _, d := range []int{1, 3} {
						pc := ProvCase{Kind: "delete", Size: n, Desired: desired, Min: 0, ForeignAt: -1, Failure: "none", K2: d}
						if k > 0 {
							pc.Failure, pc.K = "terminate-asg", k
						}
						cases = append(cases, pc)
					}
				}
			}
		}
	}
	if prop == "C19" || prop == "C12" {
		for _, desired := range []int{3, 6} {
			for _, k := range []int{0, 1} {
				cases = append(cases, ProvCase{Kind: "replace", Desired: desired, Min: 0, K: k})
			}
		}
	}
	if prop == "C19" {
		for _, desired := range []int{1, 2, 3, 5, 8} {
			for min := 0; min <= desired; min++ {
				for n := 0; n <= desired+1 && n <= 6; n++ {
					cases = append(cases, ProvCase{Kind: "delete", Size: n, Desired: desired, Min: min, ForeignAt: -1, Failure: "none"})
					for at := 0; at <= n && tier == "thorough" || at <= n && at <= 2; at++ {
						cases = append(cases, ProvCase{Kind: "delete", Size: n, Desired: desired, Min: min, ForeignAt: at, Failure: "none"})
					}
					for k := 1; k <= n; k++ {
						cases = append(cases, ProvCase{Kind: "delete", Size: n, Desired: desired, Min: min, ForeignAt: -1, Failure: "terminate-asg", K: k})
					}
				}
			}
		}
	}
	return cases
}

func directedJobs(t *testing.T, prop, tier, shard string) []job {
	parts := strings.Split(shard, "/")
	idx, _ := strconv.Atoi(parts[0])
	cnt := 1
	if len(parts) > 1 {
		cnt, _ = strconv.Atoi(parts[1])
	}
	if cnt < 1 {
		cnt = 1
	}
	var js []job
	for i, pc := range enumerateCases(prop, tier) {
		if i%cnt != idx {
			continue
		}
		pc := pc
		vb, _ := json.Marshal(pc)
		seed := uint64(1000000 + i)
		j := job{driver: "provider", seed: seed, variant: string(vb)}
		j.run = func(replay map[string][]uint32, maxOps int, st *Stats) *RunResult {
			st.Probe("directed:" + pc.Kind + ":" + pc.Failure)
			return RunProvider(t, ProvSpec{Seed: seed, Prop: prop, Replay: replay, Case: &pc, MaxOps: maxOps}, st)
		}
		js = append(js, j)
	}
	return js
}
