package harness

import (
	"flag"
	"fmt"
	"os"
	"strconv"
	"strings"
	"testing"
	"time"
)

var (
	fProp   = flag.String("prop", "C01", "property id")
	fTier   = flag.String("tier", "quick", "quick|thorough")
	fSeeds  = flag.String("seeds", "1:20", "run seed range a:b")
	fAll    = flag.Bool("all", false, "report violations of every property")
	fDump   = flag.Bool("dump", false, "print the event log of violating runs")
	fDumpAll = flag.Bool("dumpall", false, "print the whole event log")
)

func seedRange() (uint64, uint64) {
	p := strings.Split(*fSeeds, ":")
	a, _ := strconv.ParseUint(p[0], 10, 64)
	b := a
	if len(p) > 1 {
		b, _ = strconv.ParseUint(p[1], 10, 64)
	}
	return a, b
}

func TestSmoke(t *testing.T) {
	stats := newStats()
	a, b := seedRange()
	for seed := a; seed <= b; seed++ {
		res := RunOne(t, RunSpec{Seed: seed, Prop: *fProp, Tier: *fTier, AllProps: *fAll, KeepLog: *fDump || *fDumpAll}, stats)
		fmt.Fprintf(os.Stdout, "seed %d: scans=%d lives=%d sim=%.0fs calm=%v rejected=%v harnessErr=%q violations=%d\n", seed, res.Scans, res.Lifetimes, res.SimSeconds, res.Calm, res.Rejected, res.HarnessErr, len(res.Violations))
		for _, v := range res.Violations {
			fmt.Println("   ", v)
			if *fDump {
				for _, l := range v.Excerpt {
					fmt.Println("        ", l)
				}
			}
		}
		if *fDumpAll {
			fmt.Println(res.ConfigText)
			for _, l := range res.Log {
				fmt.Println("  |", l)
			}
		}
	}
	if !*fDump && !*fDumpAll {
		fmt.Printf("faults=%v\nworld=%v\nprobes=%v\n", stats.Faults, stats.World, stats.Probes)
	}
}

var (
	fBudget = flag.Float64("budget", 20, "wall budget in seconds")
	fOut    = flag.String("out", "", "worker report path")
	fReplay = flag.String("replay", "", "replay file")
	fVerbose = flag.Bool("verbose", false, "verbose replay")
	fShard  = flag.String("shard", "0/1", "worker index / worker count (directed enumeration)")
	fMaxViol = flag.Int("maxviol", 6, "stop collecting after this many distinct violations")
)

func TestWorker(t *testing.T) {
	if *fOut == "" {
		t.Skip("no -out")
	}
	a, b := seedRange()
	WorkerMain(t, *fProp, *fTier, a, b, time.Duration(*fBudget*float64(time.Second)), *fOut, *fMaxViol, directedJobs(t, *fProp, *fTier, *fShard))
}

func TestReplay(t *testing.T) {
	if *fReplay == "" {
		t.Skip("no -replay")
	}
	ok, msg := ReplayMain(t, *fReplay, *fVerbose)
	fmt.Println(ifs(ok, "REPRODUCED: ", "NOT-REPRODUCED: ") + msg)
	if !ok {
		os.Exit(3)
	}
}

func TestHashes(t *testing.T) {
	a, b := seedRange()
	if b-a > 1000 {
		t.Skip("range too large")
	}
	for seed := a; seed <= b; seed++ {
		res := RunOne(t, RunSpec{Seed: seed, Prop: *fProp, Tier: *fTier, AllProps: true}, newStats())
		fmt.Printf("HASH %d %s\n", seed, res.LogHash)
		pr := RunProvider(t, ProvSpec{Seed: seed}, newStats())
		fmt.Printf("HASH p%d %s\n", seed, pr.LogHash)
		pa := RunPair(t, RunSpec{Seed: seed, Prop: "C12", Tier: *fTier}, PairVariant{Kind: []string{"world", "faults", "dry"}[seed%3], Group: int(seed % 2)}, newStats())
		fmt.Printf("HASH x%d %s:%d\n", seed, pa.LogHash, len(pa.Violations))
	}
}
