package harness

// Keyed choice streams: the single source of every decision a simulated run
// makes. A run is a pure function of (run seed, code); every stream is a PRNG
// seeded from hash(runSeed, key), so independent consumers (group A's world,
// group B's faults, ...) cannot perturb each other. All consumed values are
// recorded; a replay file feeds recorded values back (exhausted or missing
// stream -> zeros, and zero always decodes to the benign choice).

import (
	"hash/fnv"
	"math/rand/v2"
	"sort"
)

type Stream struct {
	key    string
	rng    *rand.PCG
	replay []uint32
	fixed  bool // replaying: use replay values then zeros
	pos    int
	rec    []uint32
}

type Choices struct {
	Seed    uint64
	streams map[string]*Stream
	replay  map[string][]uint32 // nil when generating
	Draws   int
}

func NewChoices(seed uint64, replay map[string][]uint32) *Choices {
	return &Choices{Seed: seed, streams: map[string]*Stream{}, replay: replay}
}

func hashKey(key string) uint64 {
	h := fnv.New64a()
	h.Write([]byte(key))
	return h.Sum64()
}

// S returns the stream for key, creating it on first use.
func (c *Choices) S(key string) *Stream {
	if s, ok := c.streams[key]; ok {
		return s
	}
	s := &Stream{key: key}
	if c.replay != nil {
		s.fixed = true
		s.replay = c.replay[key]
	} else {
		s.rng = rand.NewPCG(c.Seed, hashKey(key))
	}
	c.streams[key] = s
	return s
}

// Recorded returns the consumed values of every stream that consumed any
// non-zero value (all-zero streams are the default and need not be stored).
func (c *Choices) Recorded() map[string][]uint32 {
	out := map[string][]uint32{}
	for k, s := range c.streams {
		last := -1
		for i, v := range s.rec {
			if v != 0 {
				last = i
			}
		}
		if last >= 0 {
			out[k] = append([]uint32(nil), s.rec[:last+1]...)
		}
	}
	return out
}

func (c *Choices) Keys() []string {
	ks := make([]string, 0, len(c.streams))
	for k := range c.streams {
		ks = append(ks, k)
	}
	sort.Strings(ks)
	return ks
}

// U32 draws the next raw value.
func (s *Stream) U32() uint32 {
	var v uint32
	if s.fixed {
		if s.pos < len(s.replay) {
			v = s.replay[s.pos]
		}
	} else {
		v = uint32(s.rng.Uint64() >> 32)
	}
	s.pos++
	s.rec = append(s.rec, v)
	return v
}

// Intn returns a value in [0,n); 0 is the benign choice.
func (s *Stream) Intn(n int) int {
	if n <= 1 {
		s.U32() // keep stream positions stable whatever n is
		return 0
	}
	return int(s.U32() % uint32(n))
}

// Range returns a value in [lo,hi]; lo is benign.
func (s *Stream) Range(lo, hi int) int {
	if hi < lo {
		hi = lo
	}
	return lo + s.Intn(hi-lo+1)
}

// Chance is true with probability p; a zero draw is always false.
func (s *Stream) Chance(p float64) bool {
	v := s.U32()
	if p <= 0 {
		return false
	}
	if p >= 1 {
		return v != 0
	}
	thr := uint32((1 - p) * 4294967296.0)
	return v > thr
}

// Pick returns an index with probability proportional to weights; a zero draw
// returns the first index with non-zero weight.
func (s *Stream) Pick(weights ...int) int {
	total := 0
	for _, w := range weights {
		total += w
	}
	v := s.U32()
	if total <= 0 {
		return 0
	}
	x := int(v % uint32(total))
	for i, w := range weights {
		if x < w {
			return i
		}
		x -= w
	}
	return len(weights) - 1
}

// Float returns a value in [0,1); zero draw -> 0.
func (s *Stream) Float() float64 {
	return float64(s.U32()) / 4294967296.0
}

// Perm returns a permutation of 0..n-1 (Fisher-Yates from the back); all-zero
// draws give a fixed rotation, which is as benign as any order.
func (s *Stream) Perm(n int) []int {
	p := make([]int, n)
	for i := range p {
		p[i] = i
	}
	for i := n - 1; i > 0; i-- {
		j := s.Intn(i + 1)
		if j == 0 {
			j = i // zero draw keeps identity
		} else {
			j--
		}
		p[i], p[j] = p[j], p[i]
	}
	return p
}
