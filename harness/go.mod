module verif/harness

go 1.26.8

require (
	github.com/atlassian/escalator v0.0.0
	github.com/aws/aws-sdk-go v1.55.6
	github.com/prometheus/client_golang v1.21.1
	github.com/prometheus/client_model v0.6.1
	github.com/sirupsen/logrus v1.9.3
	gopkg.in/evanphx/json-patch.v4 v4.12.0
	k8s.io/api v0.32.3
	k8s.io/apimachinery v0.32.3
	k8s.io/client-go v0.32.3
)

require (
	github.com/beorn7/perks v1.0.1 // indirect
	github.com/cespare/xxhash/v2 v2.3.0 // indirect
	github.com/davecgh/go-spew v1.1.2-0.20180830191138-d8f796af33cc // indirect
	github.com/emicklei/go-restful/v3 v3.12.2 // indirect
	github.com/fxamacker/cbor/v2 v2.7.0 // indirect
	github.com/go-logr/logr v1.4.2 // indirect
	github.com/go-openapi/jsonpointer v0.21.1 // indirect
	github.com/go-openapi/jsonreference v0.21.0 // indirect
	github.com/go-openapi/swag v0.23.1 // indirect
	github.com/gogo/protobuf v1.3.2 // indirect
	github.com/golang/protobuf v1.5.4 // indirect
	github.com/google/gnostic-models v0.6.9 // indirect
	github.com/google/go-cmp v0.7.0 // indirect
	github.com/google/gofuzz v1.2.0 // indirect
	github.com/google/uuid v1.6.0 // indirect
	github.com/jmespath/go-jmespath v0.4.0 // indirect
	github.com/josharian/intern v1.0.0 // indirect
	github.com/json-iterator/go v1.1.12 // indirect
	github.com/klauspost/compress v1.18.0 // indirect
	github.com/mailru/easyjson v0.9.0 // indirect
	github.com/modern-go/concurrent v0.0.0-20180306012644-bacd9c7ef1dd // indirect
	github.com/modern-go/reflect2 v1.0.2 // indirect
	github.com/munnerz/goautoneg v0.0.0-20191010083416-a7dc8b61c822 // indirect
	github.com/pkg/errors v0.9.1 // indirect
	github.com/prometheus/common v0.63.0 // indirect
	github.com/prometheus/procfs v0.16.0 // indirect
	github.com/spf13/pflag v1.0.6 // indirect
	github.com/stephanos/clock v0.0.0-20161224195152-e4ec0ab5053e // indirect
	github.com/x448/float16 v0.8.4 // indirect
	golang.org/x/net v0.37.0 // indirect
	golang.org/x/oauth2 v0.28.0 // indirect
	golang.org/x/sys v0.31.0 // indirect
	golang.org/x/term v0.30.0 // indirect
	golang.org/x/text v0.23.0 // indirect
	golang.org/x/time v0.11.0 // indirect
	google.golang.org/protobuf v1.36.6 // indirect
	gopkg.in/inf.v0 v0.9.1 // indirect
	gopkg.in/yaml.v3 v3.0.1 // indirect
	k8s.io/klog/v2 v2.130.1 // indirect
	k8s.io/kube-openapi v0.0.0-20250318190949-c8a335a9a2ff // indirect
	k8s.io/utils v0.0.0-20250321185631-1f6e0b77f77e // indirect
	sigs.k8s.io/json v0.0.0-20241014173422-cfa47c3a1cc8 // indirect
	sigs.k8s.io/randfill v1.0.0 // indirect
	sigs.k8s.io/structured-merge-diff/v4 v4.6.0 // indirect
	sigs.k8s.io/yaml v1.4.0 // indirect
)

replace github.com/atlassian/escalator => /repo
