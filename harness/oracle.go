package harness

// Per-scan monitors for C01-C13, C15, C17-C20 in the whole-controller
// simulation. Rule names are what violations are reported, matched against
// known findings and minimised by.

import (
	"fmt"
	"math"
	"math/big"
	"sort"
	"strings"
	"time"

	v1 "k8s.io/api/core/v1"
	apiequality "k8s.io/apimachinery/pkg/api/equality"
)

type scanCtx struct {
	s   *Supervisor
	rec *ScanRecord
	gs  *GroupScan
	g   *GroupCfg
	a   *Analysis
}

func (x *scanCtx) viol(prop, rule, sub, site, detail string, hl ...*Call) {
	v := Violation{Property: prop, Rule: rule, Sub: sub, Site: site, Scan: x.rec.Index, Life: x.rec.Life, Detail: detail}
	if x.gs != nil {
		v.Group = x.gs.Group
		v.Excerpt = excerpt(x.gs, hl...)
	}
	x.s.violate(v)
}

func excerpt(gs *GroupScan, hl ...*Call) []string {
	var out []string
	mark := map[*Call]bool{}
	for _, c := range hl {
		mark[c] = true
	}
	out = append(out, fmt.Sprintf("view: %d nodes, %d pods, t_list=%s min_eff=%d max_eff=%d dry=%v", len(gs.Nodes), len(gs.Pods), gs.TList.UTC().Format("15:04:05"), gs.MinEff, gs.MaxEff, gs.Dry))
	for _, n := range gs.Nodes {
		out = append(out, fmt.Sprintf("  node %s class=%s created=%s taints=%s annotated=%v provider=%q", n.Name, classify(n), n.CreationTimestamp.UTC().Format("15:04:05"), taintsString(n.Spec.Taints), annotated(n), n.Spec.ProviderID))
		if len(out) > 30 {
			break
		}
	}
	for i, c := range gs.Calls {
		if i > 60 {
			out = append(out, "  ...")
			break
		}
		out = append(out, ifs(mark[c], ">>", "  ")+c.Line())
	}
	return out
}

func (x *scanCtx) check(rule string) { x.s.stats.Check(rule, x.a.StateHash) }

// checkScan evaluates every monitor on one finished scan and then advances the
// per-lifetime models (lock, node-size memory).
func (s *Supervisor) checkScan(rec *ScanRecord) {
	st := s.stats
	interKey := newHasher()
	defer s.checkOutcome(rec) // C20: how the scan ended (needs the per-group analysis)
	for _, gs := range rec.Groups {
		if !gs.Reached {
			continue
		}
		g := s.groupCfg(gs.Group)
		if !gs.NodesErr && gs.NodesListed {
			m := s.mem[g.Name]
			if m == nil {
				m = &sizeMemory{}
				s.mem[g.Name] = m
			}
			m.observe(gs.Nodes)
		}
		a := analyse(gs, g, rec)
		gs.A = a
		a.KnownStart = gs.KnownAtList
		a.KnownEnd = knownAfter(gs)
		if gs.ViewMoved {
			a.Clean, a.CleanUp, a.CleanTaint = false, false, false
			st.Probe("group listed twice in one turn with different answers")
		}
		if gs.KnownAmbiguous {
			a.KnownEnd.Valid = false
			a.Clean, a.CleanUp, a.CleanTaint = false, false, false
			st.Probe("group judged without a known cloud state (ambiguous since a describe outside Refresh)")
		}
		lm := s.lock[g.Name]
		if lm != nil && lm.Armed && gs.NodesListed {
			a.LockKnown = true
			a.LockedStrict = gs.TList.Sub(lm.At) < g.CoolDown
			a.Locked = a.LockedStrict || !lm.AtMax.IsZero() && gs.TList.Sub(lm.AtMax) < g.CoolDown
		} else {
			a.LockKnown = true
		}
		a.StateHash = a.hash(gs, g)
		st.States[a.StateHash] = struct{}{}
		interKey.add(gs)
		x := &scanCtx{s: s, rec: rec, gs: gs, g: g, a: a}
		x.probes()
		x.c12Attribution()
		x.c12Targets()
		if gs.Dry {
			x.c11()
		} else {
			x.c01()
			x.c02()
			x.c03()
			x.c04()
			x.c05()
			x.c06()
			x.c06Starve()
			x.c07()
			x.c08()
			x.c09()
			x.c10()
			x.c13()
			x.c15()
			x.c17()
			x.c18()
			x.c19()
			x.c19Fatal()
			x.c20Recovery()
		}
		// advance the lock model: an accepted cloud increase arms it
		if !gs.Dry {
			if at, amt, ok := acceptedIncrease(gs); ok {
				if lm != nil && lm.Armed && at.Sub(lm.At) < g.CoolDown {
					st.Probe("lock-rearmed-while-armed")
				}
				atMax := gs.TLeave
				if atMax.Before(at) {
					atMax = at
				}
				s.lock[g.Name] = &lockModel{Armed: true, At: at, AtMax: atMax, Amount: amt}
				st.Probe("lock-armed")
			}
		}
	}
	st.Inter[interKey.sum()] = struct{}{}
}

// knownAfter: the known-ASG model at the end of the group's processing.
func knownAfter(gs *GroupScan) *KnownASG {
	k := gs.KnownAtList.clone()
	for _, c := range gs.Calls {
		if c.Err != "" {
			continue
		}
		switch c.Op {
		case OpSetDesired:
			k.Desired = c.Desired
		case OpTerminateASG:
			if c.Decrement {
				k.Desired--
			}
		case OpAttach:
			k.Desired += int64(len(c.IDs))
		}
	}
	return k
}

// acceptedIncrease finds the acknowledgement instant of a cloud increase that
// the provider reported as successful in this group's scan.
func acceptedIncrease(gs *GroupScan) (time.Time, int64, bool) {
	var at time.Time
	var amt int64
	ok := false
	// (1) the cloud accepted: an acknowledged SetDesiredCapacity, or every instance of a fleet attached with an
	// acknowledgement and none of them handed back (attach calls that were refused and repeated do not matter)
	var fleet *Call
	attached := map[string]bool{}
	var lastAttach *Call
	handedBack := false
	for _, c := range gs.Calls {
		switch c.Op {
		case OpSetDesired:
			if c.Err == "" {
				at, ok = c.T1, true
				if c.Known != nil {
					amt = c.Desired - c.Known.Desired
				}
			}
		case OpCreateFleet:
			fleet, attached, lastAttach, handedBack = c, map[string]bool{}, nil, false
			if c.Err != "" || len(c.IDs) == 0 {
				fleet = nil
			}
		case OpAttach:
			if fleet != nil && c.Err == "" {
				for _, id := range c.IDs {
					attached[id] = true
				}
				lastAttach = c
			}
		case OpTerminateEC2:
			if fleet != nil {
				for _, id := range c.IDs {
					for _, f := range fleet.IDs {
						if f == id {
							handedBack = true
						}
					}
				}
			}
		}
	}
	if fleet != nil && !handedBack && lastAttach != nil {
		all := true
		for _, id := range fleet.IDs {
			if !attached[id] {
				all = false
			}
		}
		if all {
			at, amt, ok = lastAttach.T1, int64(len(fleet.IDs)), true
		}
	}
	if ok {
		return at, amt, ok
	}
	// (2) or the provider told the controller so: an IncreaseSize that returned without error (its boundaries
	// are recorded at the NodeGroup seam). The instant is the last acknowledged cloud write inside it.
	for _, r := range gs.Reqs {
		if r.Kind != "increase" || !r.Done || r.Err != "" {
			continue
		}
		for _, c := range gs.Calls {
			if c.Seq > r.Seq0 && c.Seq <= r.Seq1 && c.Err == "" && (c.Op == OpSetDesired || c.Op == OpAttach) {
				at, amt, ok = c.T1, r.Delta, true
			}
		}
	}
	return at, amt, ok
}

// ---- probes (rare-condition reach counters) -------------------------------------------

func (x *scanCtx) probes() {
	st, a, gs, g := x.s.stats, x.a, x.gs, x.g
	st.Probe("kind:" + a.Kind + ifs(gs.Dry, ":dry", ""))
	if a.Locked {
		st.Probe("scan-while-locked")
		if a.Kind == kBelowMin {
			st.Probe("untainted<min while locked")
		}
		if len(a.Force) > 0 {
			st.Probe("force-tainted while locked")
		}
	}
	if lm := x.s.lock[g.Name]; lm != nil && lm.Armed && gs.NodesListed && gs.TList.Sub(lm.At) == g.CoolDown {
		st.Probe("scan exactly at cool-down expiry")
	}
	for b := range a.Bands {
		st.Probe("band:" + b)
	}
	if len(a.Bands) > 1 {
		st.Probe("on-threshold (within tolerance)")
	}
	if a.StarveMay {
		st.Probe("starve-trigger-may-fire")
	}
	if a.AgeMay {
		st.Probe("max-node-age-trigger-may-fire")
	}
	for _, n := range gs.Nodes {
		c := classify(n)
		if c == clCordoned && hasTaintKey(n, escTaint) {
			st.Probe("cordoned+tainted")
		}
		if c == clCordoned && hasTaintKey(n, forceTaint) {
			st.Probe("cordoned+force-tainted")
		}
		if c == clTainted && annotated(n) {
			st.Probe("tainted+annotated")
		}
		if c == clTainted {
			if ts, ok := stampOf(n); !ok {
				st.Probe("tainted with unreadable stamp")
			} else {
				e := gs.TList.Sub(ts)
				if e == g.Soft {
					st.Probe("scan exactly at soft expiry")
				}
				if e == g.Hard {
					st.Probe("scan exactly at hard expiry")
				}
				if e > g.Hard && a.PodsOn[n.Name] > 0 {
					st.Probe("non-empty node past hard period")
				}
			}
		}
	}
	if gs.WorldOps > 0 {
		st.Probe("world acted between two calls of a scan")
	}
}

// ---- C01 ------------------------------------------------------------------------------

func (x *scanCtx) c01() {
	a, g := x.a, x.g
	judge := func(c *Call, node string) {
		n, ok := a.Node[node]
		if !ok {
			x.viol("C01", "c01-unknown-target", "", c.Op, fmt.Sprintf("%s targets %q which is not a node of this group's view", c.Op, c.Target), c)
			return
		}
		x.check("c01")
		cls := a.Class[node]
		switch cls {
		case clCordoned:
			x.viol("C01", "c01-cordoned", "", c.Op, fmt.Sprintf("%s of %s which is cordoned in the view", c.Op, node), c)
		case clUntainted:
			x.viol("C01", "c01-not-eligible", "untainted", c.Op, fmt.Sprintf("%s of %s which carries neither taint in the view", c.Op, node), c)
		case clForce:
			if a.PodsOn[node] > 0 {
				x.viol("C01", "c01-not-eligible", "force-nonempty", c.Op, fmt.Sprintf("%s of force-tainted %s which runs %d group pods in the view", c.Op, node, a.PodsOn[node]), c)
			}
		case clTainted:
			ts, ok := stampOf(n)
			if !ok {
				t, _ := escTaintOf(n)
				x.viol("C01", "c01-not-eligible", "unreadable", c.Op, fmt.Sprintf("%s of %s whose taint time %q cannot be read", c.Op, node, t.Value), c)
				return
			}
			e := c.T0.Sub(ts)
			empty := a.PodsOn[node] == 0
			switch {
			case e > g.Hard:
				x.s.stats.Probe("removal past hard period")
				if e <= g.Hard+time.Second {
					x.s.stats.Probe("removal at hard+<=1s")
				}
			case e > g.Soft && empty:
				x.s.stats.Probe("removal past soft period (empty)")
				if e <= g.Soft+time.Second {
					x.s.stats.Probe("removal at soft+<=1s")
				}
			case e > g.Soft:
				x.viol("C01", "c01-not-eligible", "nonempty-before-hard", c.Op, fmt.Sprintf("%s of %s tainted %v ago (soft %v, hard %v) while it runs %d group pods", c.Op, node, e, g.Soft, g.Hard, a.PodsOn[node]), c)
			default:
				x.viol("C01", "c01-not-eligible", "soft", c.Op, fmt.Sprintf("%s of %s tainted only %v ago (soft grace %v)", c.Op, node, e, g.Soft), c)
			}
			if x.rec.InLife < 3 && x.rec.Life > 0 {
				x.s.stats.Probe("reap in a later lifetime than the taint")
			}
		}
	}
	for _, c := range a.Terminates {
		node, ok := a.ByInst[c.Target]
		if !ok {
			x.viol("C01", "c01-unknown-target", "", c.Op, fmt.Sprintf("terminate of instance %q which backs no node of this group's view", c.Target), c)
			continue
		}
		judge(c, node)
	}
	for _, c := range a.Deletes {
		judge(c, c.Target)
	}
}

// ---- C02 ------------------------------------------------------------------------------

func (x *scanCtx) c02() {
	a, gs, g := x.a, x.gs, x.g
	lm := x.s.lock[g.Name]
	if a.LockedStrict {
		x.check("c02-locked")
		for _, c := range a.Writes {
			site := "other"
			if a.Kind == kBelowMin {
				site = "below-min-branch"
			}
			x.viol("C02", "c02-write-while-locked", "", site, fmt.Sprintf("%s %s at %v after the accepted scale-up (cool-down %v); view kind=%s", c.Op, c.Target, gs.TList.Sub(lm.At), g.CoolDown, a.Kind), c)
			break
		}
	}
	// the remainder of the arming scan
	if at, _, ok := acceptedIncrease(gs); ok {
		for _, c := range a.Writes {
			if c.T0.After(at) || (c.T0.Equal(at) && c.Seq > lastIncreaseSeq(gs)) {
				x.viol("C02", "c02-write-while-locked", "arming-scan", "after-ack", fmt.Sprintf("%s %s after the scale-up was accepted in the same scan", c.Op, c.Target), c)
				break
			}
		}
	}
	// liveness: the lock never outlives its cool-down
	if lm != nil && lm.Armed && !a.Locked && a.Clean && a.Kind == kBelowMin {
		// the cool-down ran out, the group is short of min_nodes and something can be done about it
		if exp, why := x.expectsAction(); exp {
			x.check("c02-expired")
			if len(gs.Calls) == 0 {
				x.viol("C02", "c02-lock-outlived", "below-min", "", fmt.Sprintf("cool-down %v elapsed %v ago, %s, yet the scan did nothing", g.CoolDown, gs.TList.Sub(lm.At)-g.CoolDown, why))
			}
		}
	}
	if lm != nil && lm.Armed && !a.Locked && a.Clean && a.Kind == kNormal {
		exp, strict := x.expectedTaints()
		if strict && (exp > 0 || onlyBand(a, "up")) && !a.StarveMay && !a.AgeMay {
			x.check("c02-expired")
			if len(gs.Calls) == 0 && a.U-gs.MinEff > 0 {
				if exp > 0 || len(a.Tainted) > 0 || a.KnownEnd.Desired < boundOf(gs, a.KnownEnd) {
					x.viol("C02", "c02-lock-outlived", "", "", fmt.Sprintf("cool-down %v elapsed %v ago, bands=%v prescribe action, yet the scan did nothing", g.CoolDown, gs.TList.Sub(lm.At)-g.CoolDown, bandList(a)))
				}
			}
		}
	}
}

// expectsAction: the view alone prescribes at least one call for this group
// (a taint, an untaint or a cloud request), whatever the rounding of the amount.
func (x *scanCtx) expectsAction() (bool, string) {
	a, gs := x.a, x.gs
	k := a.KnownEnd
	headroom := k != nil && k.Valid && k.Desired < boundOf(gs, k)
	switch a.Kind {
	case kNormal:
		if exp, strict := x.expectedTaints(); strict && exp > 0 && !a.StarveMay && !a.AgeMay {
			return true, fmt.Sprintf("band %v prescribes %d taints", bandList(a), exp)
		}
		if onlyBand(a, "up") && (len(a.Tainted) > 0 || headroom) {
			return true, "utilisation above the scale-up threshold with capacity available"
		}
	case kBelowMin:
		if len(a.Tainted) > 0 || headroom {
			return true, "fewer untainted nodes than min_nodes with capacity available"
		}
	case kFromZero:
		if len(a.Tainted) > 0 || headroom {
			return true, "pods waiting on a group with no untainted node"
		}
	}
	return false, ""
}

// c20Recovery: after a transient failure the next scan proceeds normally.
func (x *scanCtx) c20Recovery() {
	a, gs, g := x.a, x.gs, x.g
	last, ok := x.s.lastFailure[g.Name]
	if ok && last.life == x.rec.Life && x.rec.Index-last.scan <= 3 && a.Clean && !a.Locked && !gs.Dry {
		if exp, why := x.expectsAction(); exp {
			x.check("c20-recovery")
			x.s.stats.Probe("clean scan right after a failed action")
			if len(gs.Calls) == 0 && g.LaunchTemplateID != "" && (strings.HasPrefix(last.what, OpCreateFleet) || strings.HasPrefix(last.what, OpStatus) || strings.HasPrefix(last.what, OpTerminateEC2) || strings.HasPrefix(last.what, OpAttach)) {
				x.check("c18-no-lock")
				x.viol("C18", "c18-no-lock", "", "", fmt.Sprintf("the fleet scale-up of scan %d failed (%s) yet %d scan(s) later the group is not acted on although %s: a cool-down was taken for capacity that did not arrive", last.scan, last.what, x.rec.Index-last.scan, why))
			}
			if len(gs.Calls) == 0 {
				x.viol("C20", "c20-recovery", "", last.what, fmt.Sprintf("scan %d met a failure (%s); %d scan(s) later, with no fault and no cool-down in force, %s, yet the scan did nothing", last.scan, last.what, x.rec.Index-last.scan, why))
			}
		}
	}
	// remember failures of this scan
	for _, c := range gs.Calls {
		if c.Op == OpTerminateEC2 {
			x.s.lastFailure[g.Name] = failureNote{scan: x.rec.Index, life: x.rec.Life, what: "ec2.create-fleet not-all-attached"}
		}
		if c.Err != "" && c.Fault != "" && c.Fault != "409-natural" {
			x.s.lastFailure[g.Name] = failureNote{scan: x.rec.Index, life: x.rec.Life, what: c.Op + " " + c.Fault}
		}
	}
}

func lastIncreaseSeq(gs *GroupScan) int {
	seq := 0
	for _, c := range gs.Calls {
		if (c.Op == OpSetDesired || c.Op == OpAttach) && c.Err == "" {
			seq = c.Seq
		}
	}
	return seq
}

func onlyBand(a *Analysis, b string) bool { return len(a.Bands) == 1 && a.Bands[b] }

func bandList(a *Analysis) []string {
	var out []string
	for b := range a.Bands {
		out = append(out, b)
	}
	sort.Strings(out)
	return out
}

func boundOf(gs *GroupScan, k *KnownASG) int64 {
	b := int64(gs.MaxEff)
	if k != nil && k.Valid && k.Max < b {
		b = k.Max
	}
	return b
}

// expectedTaints returns the exact number of nodes the band prescribes to taint
// and whether the band is unambiguous (strict).
func (x *scanCtx) expectedTaints() (int, bool) {
	a, gs, g := x.a, x.gs, x.g
	clampRate := func(r int) int {
		room := a.U - gs.MinEff
		if r > room {
			r = room
		}
		if r < 0 {
			r = 0
		}
		return r
	}
	switch {
	case onlyBand(a, "fast"):
		return clampRate(g.Fast), true
	case onlyBand(a, "slow"):
		return clampRate(g.Slow), true
	case onlyBand(a, "dead"), onlyBand(a, "up"):
		return 0, true
	}
	return 0, false
}

// ---- C03 ------------------------------------------------------------------------------

func (x *scanCtx) c03() {
	a, gs := x.a, x.gs
	if a.Kind == kListErr {
		return
	}
	if a.TaintPutOK > 0 {
		x.check("c03-taint")
		// "of the untainted nodes it sees, at least min_nodes remain untainted afterwards": a node of that view
		// which the scan's own read showed to be tainted already does not remain untainted either, so it counts
		// here (whether it also counts towards the band's taint quota, C06, is left to the code)
		if a.U-a.TaintOK < gs.MinEff {
			x.viol("C03", "c03-taint-below-min", "", "", fmt.Sprintf("%d untainted nodes in view, %d tainted by this scan, min_nodes %d", a.U, a.TaintOK, gs.MinEff), putsOf(a, "taint")...)
		}
	}
	if a.Kind == kBelowMin {
		x.check("c03-below-min")
		x.s.stats.Probe("untainted<min within bounds")
		for _, at := range a.Attempts {
			if at.Kind == "taint" && at.Put != nil {
				x.viol("C03", "c03-taint-when-below-min", "", "", fmt.Sprintf("only %d untainted nodes (min %d) yet a taint was attempted on %s", a.U, gs.MinEff, at.Node), at.first(), at.Put)
				break
			}
		}
		if a.CleanUp && !a.Locked {
			deficit := gs.MinEff - a.U
			wantUntaint := deficit
			if wantUntaint > len(a.Tainted) {
				wantUntaint = len(a.Tainted)
			}
			switch {
			case len(a.Tainted) == 0:
				x.s.stats.Probe("recovery with no tainted nodes")
			case len(a.Tainted) >= deficit:
				x.s.stats.Probe("recovery covered by untainting")
			default:
				x.s.stats.Probe("recovery: untaint some + request rest")
			}
			if a.UntaintOK != wantUntaint && a.Clean {
				x.viol("C03", "c03-recovery", "untaint", "", fmt.Sprintf("deficit %d, %d tainted nodes available: expected %d untainted, saw %d", deficit, len(a.Tainted), wantUntaint, a.UntaintOK))
			}
			rem := int64(deficit - a.UntaintOK)
			x.checkRemainder("C03", "c03-recovery", []int64{rem})
		}
	}
}

func putsOf(a *Analysis, kind string) []*Call {
	var out []*Call
	for _, at := range a.Attempts {
		if at.Kind == kind && at.Put != nil {
			out = append(out, at.Put)
		}
	}
	return out
}

// checkRemainder: the cloud request equals one of the admissible remainders on
// top of the known desired size. Where the C04 clamp applies the exact landing
// is C04's business; here only "not more than asked" is required.
func (x *scanCtx) checkRemainder(prop, rule string, rems []int64) {
	a, gs := x.a, x.gs
	k := a.KnownStart
	if len(a.Increase) > 0 && a.Increase[0].Known != nil {
		k = a.Increase[0].Known
	}
	if k == nil || !k.Valid {
		return
	}
	bound := boundOf(gs, k)
	okExact, clampedAll := false, true
	var maxRem int64
	for _, r := range rems {
		if r > maxRem {
			maxRem = r
		}
		if r <= 0 {
			if a.Requested == 0 && a.ReqCalls == 0 {
				okExact = true
			}
			clampedAll = false
			continue
		}
		if k.Desired+r <= bound {
			clampedAll = false
			if a.Requested == r && a.ReqCalls == 1 {
				okExact = true
			}
		}
	}
	if okExact {
		return
	}
	if clampedAll {
		x.s.stats.Probe("scale-up clamped by the maximum")
		if a.Requested > maxRem {
			x.viol(prop, rule, "remainder", "", fmt.Sprintf("requested %d more than the remainder %v although clamped", a.Requested, rems))
		}
		return
	}
	site := ""
	if hasAckedTerminateBeforeIncrease(gs) {
		site = "after-same-scan-removal"
	}
	x.viol(prop, rule, "remainder", site, fmt.Sprintf("admissible remainders %v on top of known desired %d (bound %d): saw %d request call(s) adding %d", rems, k.Desired, bound, a.ReqCalls, a.Requested), a.Increase...)
}

func hasAckedTerminateBeforeIncrease(gs *GroupScan) bool {
	seen := false
	for _, c := range gs.Calls {
		if c.Op == OpTerminateASG && c.Err == "" {
			seen = true
		}
		if (c.Op == OpSetDesired || c.Op == OpCreateFleet) && seen {
			return true
		}
	}
	return false
}

// ---- C04 ------------------------------------------------------------------------------

func (x *scanCtx) c04() {
	a, gs := x.a, x.gs
	for _, c := range a.Increase {
		if c.Known == nil || !c.Known.Valid {
			continue
		}
		x.check("c04")
		bound := boundOf(gs, c.Known)
		site := ifs(int64(gs.MaxEff) < c.Known.Max, "max_nodes<cloud-max", "cloud-max")
		if int64(gs.MaxEff) < c.Known.Max {
			x.s.stats.Probe("increase with max_nodes < cloud max")
		}
		switch c.Op {
		case OpSetDesired:
			if c.Desired > bound {
				x.viol("C04", "c04-over-bound", "", site, fmt.Sprintf("SetDesiredCapacity(%d) above min(max_nodes=%d, cloud max=%d)", c.Desired, gs.MaxEff, c.Known.Max), c)
			}
		case OpCreateFleet:
			if c.FleetTotal > 20 {
				x.s.stats.Probe("controller requested a fleet of more than 20")
			}
			if c.Known.Desired+c.FleetTotal > bound {
				x.viol("C04", "c04-over-bound", "fleet", site, fmt.Sprintf("fleet of %d on desired %d above min(max_nodes=%d, cloud max=%d)", c.FleetTotal, c.Known.Desired, gs.MaxEff, c.Known.Max), c)
			}
		}
	}
	// clamp lands exactly on the bound
	if !a.CleanUp || a.Locked {
		return
	}
	rems := x.admissibleNeeds()
	if rems == nil {
		return
	}
	k := a.KnownStart
	if len(a.Increase) > 0 && a.Increase[0].Known != nil {
		k = a.Increase[0].Known
	} else {
		k = a.KnownEnd
	}
	if k == nil || !k.Valid {
		return
	}
	bound := boundOf(gs, k)
	minRem := int64(math.MaxInt64)
	for _, r := range rems {
		r -= int64(a.UntaintOK)
		if r < minRem {
			minRem = r
		}
	}
	if minRem <= 0 || k.Desired+minRem <= bound {
		return
	}
	x.check("c04-clamp")
	x.s.stats.Probe("clamp certainly applies")
	if bound > k.Desired {
		if a.ReqCalls != 1 || k.Desired+a.Requested != bound {
			x.viol("C04", "c04-clamp-exact", "", ifs(hasAckedTerminate(gs), "after-same-scan-removal", ifs(int64(gs.MaxEff) < k.Max, "max_nodes<cloud-max", "cloud-max")), fmt.Sprintf("need >= %d on desired %d exceeds bound %d: expected one request landing on %d, saw %d call(s) adding %d", minRem, k.Desired, bound, bound, a.ReqCalls, a.Requested), a.Increase...)
		}
	} else {
		x.s.stats.Probe("no headroom")
		if a.ReqCalls != 0 {
			x.viol("C04", "c04-clamp-exact", "no-headroom", ifs(int64(gs.MaxEff) < k.Max, "max_nodes<cloud-max", "cloud-max"), fmt.Sprintf("desired %d already at bound %d yet %d request(s) were made", k.Desired, bound, a.ReqCalls), a.Increase...)
		}
	}
}

// admissibleNeeds returns the admissible values of N (nodes needed, before
// untainting) for this scan, or nil when the oracle does not pin N down.
func (x *scanCtx) admissibleNeeds() []int64 {
	a, gs, g := x.a, x.gs, x.g
	if a.StarveMay || a.AgeMay {
		return nil
	}
	switch a.Kind {
	case kBelowMin:
		return []int64{int64(gs.MinEff - a.U)}
	case kNormal:
		if !onlyBand(a, "up") || !a.EqualSize || a.SizeCPU.Sign() == 0 || a.SizeMem.Sign() == 0 {
			return nil
		}
		n := nStar(a.ReqCPU, a.ReqMem, a.SizeCPU, a.SizeMem, g.ScaleUp)
		need := n - int64(a.U)
		if need < 0 {
			need = 0
		}
		out := []int64{need, need + 1}
		// within the float tolerance of an integral need, or with sub-unit quantities rounded down
		for nt := nStarTol(a.ReqCPULo, a.ReqMemLo, a.SizeCPU, a.SizeMem, g.ScaleUp) - int64(a.U); nt < need; nt++ {
			if nt >= 0 {
				out = append(out, nt)
			}
		}
		sort.Slice(out, func(i, j int) bool { return out[i] < out[j] })
		return out
	case kFromZero:
		m := x.s.mem[g.Name]
		if m == nil || !m.Seen {
			return []int64{1}
		}
		if m.Mixed || m.CPU.Sign() == 0 || m.Mem.Sign() == 0 {
			return nil
		}
		n := nStar(a.ReqCPU, a.ReqMem, m.CPU, m.Mem, g.ScaleUp)
		out := []int64{n, n + 1}
		for nt := nStarTol(a.ReqCPULo, a.ReqMemLo, m.CPU, m.Mem, g.ScaleUp); nt < n; nt++ {
			if nt >= 0 {
				out = append(out, nt)
			}
		}
		sort.Slice(out, func(i, j int) bool { return out[i] < out[j] })
		return out
	}
	return nil
}

// nStar = max_r ceil(100 R_r / (T c_r)), the smallest node count at which the
// same requests sit at or below the threshold.
func nStar(reqCPU, reqMem, cCPU, cMem *big.Int, T int) int64 {
	one := func(r, c *big.Int) int64 {
		num := new(big.Int).Mul(r, big.NewInt(100))
		den := new(big.Int).Mul(c, big.NewInt(int64(T)))
		return ceilRat(new(big.Rat).SetFrac(num, den)).Int64()
	}
	a, b := one(reqCPU, cCPU), one(reqMem, cMem)
	if b > a {
		return b
	}
	return a
}

// nStarTol: the same with the threshold relaxed by the float tolerance.
func nStarTol(reqCPU, reqMem, cCPU, cMem *big.Int, T int) int64 {
	one := func(r, c *big.Int) int64 {
		num := new(big.Rat).SetFrac(new(big.Int).Mul(r, big.NewInt(100)), new(big.Int).Mul(c, big.NewInt(int64(T))))
		num.Quo(num, new(big.Rat).Add(big.NewRat(1, 1), tol))
		return ceilRat(num).Int64()
	}
	a, b := one(reqCPU, cCPU), one(reqMem, cMem)
	if b > a {
		return b
	}
	return a
}

// ---- C05 ------------------------------------------------------------------------------

func (x *scanCtx) c05() {
	a, gs, g := x.a, x.gs, x.g
	if !a.CleanUp || a.Locked || a.StarveMay || a.AgeMay {
		return
	}
	var cCPU, cMem *big.Int
	switch a.Kind {
	case kNormal:
		if !onlyBand(a, "up") || !a.EqualSize {
			return
		}
		cCPU, cMem = a.SizeCPU, a.SizeMem
		if a.UCPU.Cmp(a.UMem) >= 0 {
			x.s.stats.Probe("scale-up cpu-bound")
		} else {
			x.s.stats.Probe("scale-up mem-bound")
		}
	case kFromZero:
		m := x.s.mem[g.Name]
		if m == nil || !m.Seen {
			x.check("c05-from-zero-unknown")
			x.s.stats.Probe("scale from zero, node size never observed")
			if x.rec.Life > 0 {
				x.s.stats.Probe("scale from zero after restart")
			}
			added := int64(a.UntaintOK) + a.Requested
			k := a.KnownEnd
			if added != 1 && !(k.Valid && k.Desired >= boundOf(gs, k) && added == 0) {
				x.viol("C05", "c05-from-zero-unknown", "", "", fmt.Sprintf("scale-up from zero with no node size ever observed must add exactly one node, added %d", added), a.Increase...)
			}
			return
		}
		if m.Mixed {
			return
		}
		cCPU, cMem = m.CPU, m.Mem
		x.s.stats.Probe("scale from zero with remembered node size")
	default:
		return
	}
	if cCPU.Sign() == 0 || cMem.Sign() == 0 {
		return
	}
	x.check("c05")
	n := nStar(a.ReqCPU, a.ReqMem, cCPU, cMem, g.ScaleUp)
	nTol := nStarTol(a.ReqCPULo, a.ReqMemLo, cCPU, cMem, g.ScaleUp)
	S := int64(a.U) + int64(a.UntaintOK) + a.Requested
	k := a.KnownEnd
	if len(a.Increase) > 0 && a.Increase[0].Known != nil {
		k = a.Increase[0].Known
	}
	allAttempted := true
	for _, n := range a.Tainted {
		if !a.UntaintAttempted[n.Name] {
			allAttempted = false
		}
	}
	clamped := k.Valid && k.Desired+a.Requested >= boundOf(gs, k) && allAttempted
	exact := new(big.Rat).SetFrac(new(big.Int).Mul(a.ReqCPU, big.NewInt(100)), new(big.Int).Mul(cCPU, big.NewInt(int64(g.ScaleUp))))
	if exact.IsInt() {
		x.s.stats.Probe("N* exactly integral")
	}
	if S < nTol && !clamped {
		x.viol("C05", "c05-insufficient", "", ifs(hasAckedTerminate(gs), "after-same-scan-removal", ""), fmt.Sprintf("requests cpu=%vm mem=%vB, node %vm/%vB, threshold %d%%: need %d nodes in service, scan ends with %d (untainted %d + untainted-now %d + requested %d)", a.ReqCPU, a.ReqMem, cCPU, cMem, g.ScaleUp, n, S, a.U, a.UntaintOK, a.Requested), a.Increase...)
	}
	if S > n+1 {
		site := ""
		if hasAckedTerminateBeforeIncrease(gs) {
			site = "after-same-scan-removal"
		}
		x.viol("C05", "c05-excess", "", site, fmt.Sprintf("smallest sufficient count is %d, scan ends with %d (untainted %d + untainted-now %d + requested %d on known desired %d)", n, S, a.U, a.UntaintOK, a.Requested, k.Desired), a.Increase...)
	}
}

// ---- C06 ------------------------------------------------------------------------------

func (x *scanCtx) c06() {
	a, gs, g := x.a, x.gs, x.g
	if a.Locked || (a.Kind != kNormal && a.Kind != kIdleZero) {
		return
	}
	trigger := a.StarveMay || a.AgeMay
	// a node found already tainted (stale view) may or may not be counted by the code as one of "its" taints
	clean := a.Clean && !a.NoopTaint
	taintAttempts, untaintAttempts := 0, 0
	var firstTaint, firstUntaint *Call
	for _, at := range a.Attempts {
		if at.Put == nil {
			continue // a read is not an action
		}
		if at.Kind == "taint" {
			taintAttempts++
			if firstTaint == nil {
				firstTaint = at.first()
			}
		}
		if at.Kind == "untaint" {
			untaintAttempts++
			if firstUntaint == nil {
				firstUntaint = at.first()
			}
		}
	}
	addsCapacity := untaintAttempts > 0 || len(a.Increase) > 0
	x.check("c06-direction")
	site := ""
	if g.Slow < 0 || g.Fast < 0 {
		site = "negative-removal-rate"
	}
	if a.Kind == kIdleZero {
		if addsCapacity && !trigger {
			x.viol("C06", "c06-wrong-direction", "idle", site, "no untainted nodes and no requests, yet capacity was added", a.Increase...)
		}
		return
	}
	// direction rules hold in faulty scans too
	if !a.Bands["up"] && !trigger && addsCapacity {
		rule := "c06-wrong-direction"
		if onlyBand(a, "dead") {
			rule = "c06-acted-in-deadband"
		}
		x.viol("C06", rule, "adds-capacity", site, fmt.Sprintf("u=%s%% bands=%v thresholds %d/%d/%d: capacity added (untaint attempts %d, cloud requests %d)", a.UMax.FloatString(6), bandList(a), g.Lower, g.Upper, g.ScaleUp, untaintAttempts, len(a.Increase)), append(a.Increase, firstUntaint)...)
	}
	if !a.Bands["fast"] && !a.Bands["slow"] && taintAttempts > 0 {
		rule := "c06-wrong-direction"
		if onlyBand(a, "dead") {
			rule = "c06-acted-in-deadband"
		}
		x.viol("C06", rule, "taints", site, fmt.Sprintf("u=%s%% bands=%v thresholds %d/%d/%d: %d taint attempt(s)", a.UMax.FloatString(6), bandList(a), g.Lower, g.Upper, g.ScaleUp, taintAttempts), firstTaint)
	}
	if addsCapacity && taintAttempts > 0 {
		x.viol("C06", "c06-trigger-tainted", "", site, "the same scan both added capacity and tainted", firstTaint, firstUntaint)
	}
	if !clean && a.CleanTaint && !trigger && !addsCapacity {
		// faults confined to the reap phase: the band still prescribes the exact taint count
		if exp, strict := x.expectedTaints(); strict && exp > 0 && a.TaintOK != exp {
			x.check("c06-count")
			x.viol("C06", "c06-wrong-count", "reap-phase-fault", site, fmt.Sprintf("u=%s%% bands=%v: expected %d taints although a removal call failed in this scan, saw %d", a.UMax.FloatString(6), bandList(a), exp, a.TaintOK), putsOf(a, "taint")...)
		}
	}
	if !clean && !a.NoopTaint && a.Kind == kNormal && !trigger && !addsCapacity && !x.rec.Outcome.EndsLifetime() && !preFaulted(x.rec) {
		// failed taint writes: the band's count is still owed as long as untainted nodes remain to be tried
		if exp, strict := x.expectedTaints(); strict && exp > 0 && a.TaintOK < exp {
			for _, n := range a.Untainted {
				if !a.TaintAttempted[n.Name] {
					x.check("c06-count")
					x.viol("C06", "c06-wrong-count", "stopped-early", site, fmt.Sprintf("u=%s%% bands=%v prescribe %d taints; %d succeeded, yet untainted node %s was never attempted", a.UMax.FloatString(6), bandList(a), exp, a.TaintOK, n.Name), putsOf(a, "taint")...)
					break
				}
			}
		}
	}
	if !clean {
		// counts become upper bounds
		if exp, strict := x.expectedTaints(); strict && !trigger && a.TaintPutOK > exp && !hasAppliedButFailedPut(a) {
			x.viol("C06", "c06-wrong-count", "upper-bound", site, fmt.Sprintf("bands=%v prescribe at most %d taints, %d acknowledged", bandList(a), exp, a.TaintOK), putsOf(a, "taint")...)
		}
		return
	}
	x.check("c06-count")
	exp, strict := x.expectedTaints()
	okTaints := map[int]bool{}
	if strict {
		okTaints[exp] = true
	} else {
		// on a threshold: either neighbour
		saved := a.Bands
		for b := range saved {
			a.Bands = map[string]bool{b: true}
			e, _ := x.expectedTaints()
			okTaints[e] = true
		}
		a.Bands = saved
	}
	if trigger && addsCapacity {
		x.s.stats.Probe("trigger fired (capacity added outside the up band)")
		return // c06-trigger-tainted above covers the "never taints" clause
	}
	if trigger {
		okTaints[0] = true // the trigger may have turned the decision into a scale-up that found no headroom
	}
	if !okTaints[a.TaintOK] {
		x.viol("C06", "c06-wrong-count", "", site, fmt.Sprintf("u=%s%% bands=%v rates slow=%d fast=%d untainted=%d min=%d: expected %v taints, saw %d", a.UMax.FloatString(6), bandList(a), g.Slow, g.Fast, a.U, gs.MinEff, keysInt(okTaints), a.TaintOK), putsOf(a, "taint")...)
	}
	if onlyBand(a, "up") {
		k := a.KnownEnd
		noRoom := len(a.Tainted) == 0 && k.Valid && k.Desired >= boundOf(gs, k)
		if int64(a.UntaintOK)+a.Requested < 1 && !noRoom {
			x.viol("C06", "c06-wrong-direction", "no-scale-up", ifs(hasAckedTerminate(gs), "after-same-scan-removal", site), fmt.Sprintf("u=%s%% above the scale-up threshold %d but no capacity was added", a.UMax.FloatString(6), g.ScaleUp))
		}
	}
}

// starveMustFire: scale_on_starve is documented as "a minimum scaling of 1 new node whenever there is a
// pod that cannot currently be scheduled due to no node having capacity to run it". Sufficient condition
// used here: an unbound Pending pod of the view asks for more cpu (or more memory) than is free on EVERY
// untainted node of the view (free = allocatable minus the requests of the scheduled pods bound to it).
// Returns the pod and whether a cordoned node of the view would have had the room.
func (x *scanCtx) starveMustFire() (*v1.Pod, bool) {
	a, gs, g := x.a, x.gs, x.g
	if !g.Starve || a.U >= gs.MaxEff || a.U == 0 {
		return nil, false
	}
	type room struct{ cpu, mem *big.Int }
	free := map[string]*room{}
	for _, n := range gs.Nodes {
		free[n.Name] = &room{new(big.Int).Set(resCPU(n.Status.Allocatable)), new(big.Int).Set(resMem(n.Status.Allocatable))}
	}
	for _, p := range gs.Pods {
		r, ok := free[p.Spec.NodeName]
		if !ok {
			continue
		}
		sched := false
		for _, c := range p.Status.Conditions {
			if c.Type == v1.PodScheduled { // the first PodScheduled condition decides
				sched = c.Status == v1.ConditionTrue
				break
			}
		}
		if sched && (p.Status.Phase == v1.PodPending || p.Status.Phase == v1.PodRunning) {
			c, m := podRequest(p)
			r.cpu.Sub(r.cpu, c)
			r.mem.Sub(r.mem, m)
		}
	}
	for _, p := range gs.Pods {
		if p.Status.Phase != v1.PodPending || p.Spec.NodeName != "" {
			continue
		}
		c, m := podRequest(p)
		cpuStarved, memStarved := c.Sign() > 0, m.Sign() > 0
		for _, n := range a.Untainted {
			if free[n.Name].cpu.Cmp(c) >= 0 {
				cpuStarved = false
			}
			if free[n.Name].mem.Cmp(m) >= 0 {
				memStarved = false
			}
		}
		if cpuStarved || memStarved {
			cordonedFits := false
			for _, n := range a.Cordoned {
				if free[n.Name].cpu.Cmp(c) >= 0 && free[n.Name].mem.Cmp(m) >= 0 {
					cordonedFits = true
				}
			}
			return p, cordonedFits
		}
	}
	return nil, false
}

func (x *scanCtx) c06Starve() {
	a, gs := x.a, x.gs
	if a.Kind != kNormal || a.Locked || !a.Clean || a.Bands["up"] {
		return
	}
	p, cordonedFits := x.starveMustFire()
	if p == nil {
		return
	}
	x.check("c06-starve")
	x.s.stats.Probe("starve trigger must fire (a pending pod fits on no untainted node)")
	k := a.KnownEnd
	noRoom := len(a.Tainted) == 0 && k.Valid && k.Desired >= boundOf(gs, k)
	if noRoom {
		return
	}
	if len(a.UntaintAttempted) == 0 && len(a.Increase) == 0 {
		c, m := podRequest(p)
		x.viol("C06", "c06-starve-missed", "", "", fmt.Sprintf("scale_on_starve is on and pending pod %s (cpu %vm, mem %vB) fits on no untainted node of the view, yet no capacity was added", p.Name, c, m))
		if cordonedFits {
			x.viol("C09", "c09-counted", "starve-room", "", fmt.Sprintf("pending pod %s fits only on a cordoned node; the starve decision treated that room as available", p.Name))
		}
	}
}

func preFaulted(rec *ScanRecord) bool {
	for _, c := range rec.Pre {
		if c.Fault != "" || c.Err != "" {
			return true
		}
	}
	return false
}

func hasAppliedButFailedPut(a *Analysis) bool {
	for _, at := range a.Attempts {
		if at.Put != nil && at.Put.Err != "" && at.Put.Applied {
			return true
		}
	}
	return false
}

func keysInt(m map[int]bool) []int {
	var out []int
	for k := range m {
		out = append(out, k)
	}
	sort.Ints(out)
	return out
}

// ---- C07 ------------------------------------------------------------------------------

func (x *scanCtx) c07() {
	a := x.a
	if a.Kind == kListErr {
		return
	}
	// newest first: no tainted node left unattempted is strictly newer than an attempted one
	if len(a.UntaintAttempted) > 0 {
		x.check("c07-order")
		for _, at := range a.Attempts {
			if at.Kind != "untaint" || at.Put == nil {
				continue
			}
			y := a.Node[at.Node]
			for _, xn := range a.Tainted {
				if a.UntaintAttempted[xn.Name] {
					continue
				}
				if y.CreationTimestamp.Time.Before(xn.CreationTimestamp.Time) {
					x.viol("C07", "c07-order", "", "", fmt.Sprintf("untainted %s (created %s) while newer tainted node %s (created %s) was not attempted", y.Name, y.CreationTimestamp.UTC().Format(time.RFC3339), xn.Name, xn.CreationTimestamp.UTC().Format(time.RFC3339)), at.first())
					return
				}
			}
		}
		for _, xn := range a.Tainted {
			if !a.UntaintAttempted[xn.Name] {
				for _, yn := range a.Tainted {
					if a.UntaintAttempted[yn.Name] && yn.CreationTimestamp.Time.Equal(xn.CreationTimestamp.Time) {
						x.s.stats.Probe("untaint tie at the cut")
					}
				}
			}
		}
	}
	if len(a.Increase) > 0 {
		x.check("c07-bought")
		untaintedNow := map[string]bool{}
		for _, at := range a.Attempts {
			if at.Kind == "untaint" && at.Success {
				untaintedNow[at.Node] = true
			}
		}
		for _, n := range a.Tainted {
			if a.UntaintAttempted[n.Name] && !a.UntaintFailed[n.Name] && !untaintedNow[n.Name] {
				// read successfully, found tainted, left tainted - and capacity bought: "a node it could have untainted stays tainted"
				x.viol("C07", "c07-bought-while-tainted", "read-not-untainted", "", fmt.Sprintf("cloud increase issued while tainted node %s was read (taint present) but no write removing the taint was sent", n.Name), a.Increase...)
				x.viol("C15", "c15-remove", "not-removed", "", fmt.Sprintf("the scan went to untaint %s (read it, escalator taint present) and bought capacity, but sent no write that removes the taint: untainting must remove exactly that taint", n.Name), a.Increase...)
				break
			}
			if !a.UntaintAttempted[n.Name] {
				x.viol("C07", "c07-bought-while-tainted", "", "", fmt.Sprintf("cloud increase issued while tainted node %s was never offered for untainting", n.Name), a.Increase...)
				if annotated(n) {
					x.viol("C10", "c10-counts", "not-untainted", "", fmt.Sprintf("annotated tainted node %s was passed over for untainting and capacity was bought instead: the annotation protects from removal only", n.Name), a.Increase...)
				}
				break
			}
		}
		if hasAckedTerminateBeforeIncrease(x.gs) {
			x.s.stats.Probe("force removal and scale-up in one scan")
		}
	}
	if !a.CleanUp || a.Locked {
		return
	}
	needs := x.admissibleNeeds()
	if needs == nil || a.Kind == kBelowMin { // the recovery remainder is C03's
		return
	}
	x.check("c07-remainder")
	ok := false
	var rems []int64
	allAttempted := true
	for _, n := range a.Tainted {
		if !a.UntaintAttempted[n.Name] {
			allAttempted = false
		}
	}
	for _, n := range needs {
		want := n
		if want > int64(len(a.Tainted)) {
			want = int64(len(a.Tainted))
		}
		// fewer successes than wanted are legitimate only if every tainted node was offered (failed writes)
		if int64(a.UntaintOK) == want || int64(a.UntaintOK) < want && allAttempted && !a.Clean {
			ok = true
			rems = append(rems, n-int64(a.UntaintOK))
		}
	}
	if !ok {
		x.viol("C07", "c07-remainder", "untaint-count", "", fmt.Sprintf("need N in %v with %d tainted nodes available: %d untainted", needs, len(a.Tainted), a.UntaintOK))
		return
	}
	switch {
	case a.UntaintOK > 0 && a.Requested > 0:
		x.s.stats.Probe("partial untaint + cloud remainder")
	case a.UntaintOK > 0:
		x.s.stats.Probe("untainting covered the need")
	}
	x.checkRemainder("C07", "c07-remainder", rems)
}

// ---- C08 ------------------------------------------------------------------------------

func (x *scanCtx) c08() {
	a := x.a
	var tainted []*v1.Node
	for _, at := range a.Attempts {
		if at.Kind == "taint" && at.Put != nil && at.PutOK {
			tainted = append(tainted, a.Node[at.Node])
		}
	}
	if len(tainted) == 0 {
		return
	}
	x.check("c08")
	failedSomewhere := false
	for _, at := range a.Attempts {
		if at.Kind == "taint" && !at.Success {
			failedSomewhere = true
		}
	}
	if failedSomewhere {
		x.s.stats.Probe("taint attempt failed and the next-oldest was taken")
	}
	for _, y := range tainted {
		for _, xn := range a.Untainted {
			if a.TaintAttempted[xn.Name] {
				continue
			}
			if xn.CreationTimestamp.Time.Before(y.CreationTimestamp.Time) {
				x.viol("C08", "c08-order", "", "", fmt.Sprintf("tainted %s (created %s) while strictly older untainted node %s (created %s) was neither tainted nor attempted", y.Name, y.CreationTimestamp.UTC().Format(time.RFC3339), xn.Name, xn.CreationTimestamp.UTC().Format(time.RFC3339)), putsOf(a, "taint")...)
				if annotated(xn) && !annotated(y) {
					x.viol("C10", "c10-counts", "not-tainted", "", fmt.Sprintf("annotated node %s is the older one, yet the younger %s was tainted in its place: the annotation protects from removal only, the node is tainted like any other", xn.Name, y.Name), putsOf(a, "taint")...)
				}
				return
			}
			if xn.CreationTimestamp.Time.Equal(y.CreationTimestamp.Time) {
				x.s.stats.Probe("taint tie at the cut")
			}
		}
	}
}

// ---- C09 ------------------------------------------------------------------------------

func (x *scanCtx) c09() {
	a, gs := x.a, x.gs
	if len(a.Cordoned) > 0 {
		x.check("c09-touched")
	}
	for _, c := range gs.Calls {
		var node string
		switch c.Op {
		case OpPut, OpPatch, OpDelete:
			node = c.Target
		case OpTerminateASG:
			node = a.ByInst[c.Target]
		default:
			continue
		}
		if a.Class[node] == clCordoned {
			x.viol("C09", "c09-touched", "", c.Op, fmt.Sprintf("%s on %s which is cordoned in the view (taints %s)", c.Op, node, taintsString(a.Node[node].Spec.Taints)), c)
			return
		}
	}
	// counted: gauges written in this scan
	if gs.Gauges == nil {
		return
	}
	cmp := func(name string, want float64) {
		got, ok := gs.Gauges[name]
		if !ok || math.IsNaN(got) {
			return
		}
		x.check("c09-counted")
		if got != want {
			x.viol("C09", "c09-counted", name, "", fmt.Sprintf("gauge %s = %v, oracle %v (untainted %d, cordoned %d, tainted %d, force %d)", name, got, want, a.U, len(a.Cordoned), len(a.Tainted), len(a.Force)))
		}
	}
	if a.Kind != kListErr {
		// The node-count gauges (nodes, untainted, tainted, force_tainted, cordoned) are not in any property:
		// what a dashboard counts as "nodes" is the code's business. They are only looked at for reach.
		for name, want := range map[string]float64{"untainted": float64(a.U), "tainted": float64(len(a.Tainted)), "force_tainted": float64(len(a.Force)), "cordoned": float64(len(a.Cordoned)), "nodes": float64(a.N)} {
			if got, ok := gs.Gauges[name]; ok && !math.IsNaN(got) && got != want {
				x.s.stats.Probe("node-count gauge differs from the view's class count (not judged)")
			}
		}
		// capacity is C09's subject: the allocatable of cordoned nodes must not be in it
		if !a.Fractional {
			cf, _ := new(big.Float).SetInt(a.CapCPU).Float64()
			mf, _ := new(big.Float).SetInt(a.CapMem).Float64()
			cmp("cpu_capacity", cf)
			cmp("mem_capacity", mf)
		}
	}
}

// ---- C10 ------------------------------------------------------------------------------

func (x *scanCtx) c10() {
	a, gs, g := x.a, x.gs, x.g
	anyAnnotated := false
	for _, n := range a.Tainted {
		if annotated(n) {
			anyAnnotated = true
		}
	}
	if anyAnnotated {
		x.check("c10-removed")
	}
	for _, c := range append(append([]*Call{}, a.Terminates...), a.Deletes...) {
		node := c.Target
		if c.Op == OpTerminateASG {
			node = a.ByInst[c.Target]
		}
		n, ok := a.Node[node]
		if !ok {
			continue
		}
		if a.Class[node] == clTainted && annotated(n) {
			x.viol("C10", "c10-removed", "", c.Op, fmt.Sprintf("%s of %s which carries %s=%q", c.Op, node, noDelete, n.Annotations[noDelete]), c)
			return
		}
	}
	// does not hold back the removal of other eligible nodes; the same "the reaper must run" situation also
	// decides C12's "judged only from its own pods": a foreign pod bound to an eligible node changes nothing
	if !a.Clean || a.Locked || a.Kind != kNormal && a.Kind != kIdleZero || len(a.Force) > 0 {
		return
	}
	if a.Bands["up"] || a.StarveMay || a.AgeMay {
		return
	}
	var eligible []*v1.Node
	for _, n := range a.Tainted {
		if annotated(n) {
			if ts, ok := stampOf(n); ok && gs.TList.Sub(ts) > g.Hard {
				x.s.stats.Probe("annotated node past the hard period")
			}
			continue
		}
		ts, ok := stampOf(n)
		if !ok {
			continue
		}
		e := gs.TList.Sub(ts)
		if e > g.Hard || e > g.Soft && a.PodsOn[n.Name] == 0 {
			eligible = append(eligible, n)
			if gs.StaleNodes[n.Name] {
				return // a code that reads the candidate again may see it changed: the batch is not computable
			}
			for _, sn := range gs.StalePodNodes {
				if sn == n.Name {
					return // likewise for a pod the server already has on it
				}
			}
		}
	}
	if len(eligible) == 0 {
		return
	}
	if len(eligible) > 5 {
		// "every eligible node goes in this scan" is not in any property: a cap on removals per scan is the
		// code's business. What must not happen is that the annotation (or a foreign pod) is what holds a node
		// back - judged where no realistic cap can be the reason.
		x.s.stats.Probe("more than 5 eligible nodes (hold-back rules not applied)")
		return
	}
	k := a.KnownStart
	if k == nil || !k.Valid || k.Desired <= k.Min || k.Desired-int64(len(eligible)) < k.Min {
		return
	}
	if gs.MembersAmbiguous {
		return
	}
	for _, n := range eligible {
		if _, member := k.Instances[instanceOf(n.Spec.ProviderID)]; !member {
			return // the documented not-in-group stop takes precedence
		}
	}
	done := map[string]bool{}
	for _, c := range a.Terminates {
		done[a.ByInst[c.Target]] = true
	}
	// pods of the cached population that are bound to a node of this group but do not belong to the group
	own := map[string]bool{}
	for _, p := range gs.Pods {
		own[p.Name] = true
	}
	foreignOn := map[string]string{}
	for _, p := range gs.AllPods {
		if p.Spec.NodeName != "" && !own[p.Name] && !isDaemonSetPod(p) {
			foreignOn[p.Spec.NodeName] = p.Name
		}
	}
	for _, n := range eligible {
		if fp, ok := foreignOn[n.Name]; ok {
			x.check("c12-foreign-pod")
			x.s.stats.Probe("another group's pod sits on an eligible node of this group")
			if !done[n.Name] {
				x.viol("C12", "c12-foreign-pod", "", "", fmt.Sprintf("node %s is eligible for removal judged from this group's own pods, but was left alone while pod %s of another group is bound to it", n.Name, fp))
				break
			}
		}
	}
	if !anyAnnotated {
		return
	}
	x.check("c10-holds-back")
	x.s.stats.Probe("annotated node next to an eligible neighbour")
	for _, n := range eligible {
		if !done[n.Name] {
			x.viol("C10", "c10-holds-back", "", "", fmt.Sprintf("eligible unannotated node %s was not removed in a scan where an annotated tainted node is present", n.Name))
			return
		}
	}
}

func isDaemonSetPod(p *v1.Pod) bool {
	for _, o := range p.OwnerReferences {
		if o.Kind == "DaemonSet" {
			return true
		}
	}
	return false
}

// ---- C11 ------------------------------------------------------------------------------

func (x *scanCtx) c11() {
	a, gs := x.a, x.gs
	x.check("c11")
	x.s.stats.Probe("dry:" + a.Kind)
	for _, n := range gs.Nodes {
		if hasTaintKey(n, escTaint) {
			x.s.stats.Probe("dry group over really tainted nodes")
			break
		}
	}
	for _, c := range gs.Calls {
		if isMutating(c.Op) {
			x.viol("C11", "c11-write", "", c.Op, fmt.Sprintf("%s %s issued for a dry-mode group", c.Op, c.Target), c)
			return
		}
	}
}

// ---- C12 ------------------------------------------------------------------------------

// oracle attribution, written from the documentation, not from the filters.
func podBelongs(p *v1.Pod, g *GroupCfg) bool {
	for _, o := range p.OwnerReferences {
		if o.Kind == "DaemonSet" {
			return false
		}
	}
	if g.IsDefault {
		if p.Annotations["kubernetes.io/config.source"] == "file" {
			return false
		}
		if len(p.Spec.NodeSelector) != 0 {
			return false
		}
		if af := p.Spec.Affinity; af != nil && (af.NodeAffinity != nil || af.PodAffinity != nil || af.PodAntiAffinity != nil) {
			return false
		}
		return true
	}
	if v, ok := p.Spec.NodeSelector[g.LabelKey]; ok && v == g.LabelValue {
		return true
	}
	if af := p.Spec.Affinity; af != nil && af.NodeAffinity != nil && af.NodeAffinity.RequiredDuringSchedulingIgnoredDuringExecution != nil {
		for _, term := range af.NodeAffinity.RequiredDuringSchedulingIgnoredDuringExecution.NodeSelectorTerms {
			for _, e := range term.MatchExpressions {
				if e.Key == g.LabelKey && e.Operator == v1.NodeSelectorOpIn {
					for _, val := range e.Values {
						if val == g.LabelValue {
							return true
						}
					}
				}
			}
		}
	}
	return false
}

func (x *scanCtx) c12Attribution() {
	gs, g := x.gs, x.g
	if gs.PodsErr || gs.NodesErr || !gs.NodesListed {
		return
	}
	x.check("c12-attribution")
	var wantPods, wantNodes []string
	for _, p := range gs.AllPods {
		if podBelongs(p, g) {
			wantPods = append(wantPods, p.Name)
		}
	}
	for _, n := range gs.AllNodes {
		if v, ok := n.Labels[g.LabelKey]; ok && v == g.LabelValue {
			wantNodes = append(wantNodes, n.Name)
		}
	}
	sort.Strings(wantPods)
	sort.Strings(wantNodes)
	if d := diffNames(podNames(gs.Pods), wantPods); d != "" {
		x.viol("C12", "c12-attribution", "pods", "", "pods handed to the controller differ from the documented attribution of the cached population: "+d)
	}
	if d := diffNames(nodeNames(gs.Nodes), wantNodes); d != "" {
		x.viol("C12", "c12-attribution", "nodes", "", "nodes handed to the controller differ from the documented attribution of the cached population: "+d)
	}
}

func (x *scanCtx) c12Targets() {
	a, gs, g := x.a, x.gs, x.g
	for _, c := range gs.Calls {
		bad := ""
		switch c.Op {
		// reads (a Node GET, describing cloud groups) are not actions: the property leaves the code free to
		// look at anything at any time, e.g. to refresh every cloud group again before a later group's turn
		case OpPut, OpPatch, OpDelete:
			if _, ok := a.Node[c.Target]; !ok {
				bad = "node not in this group's view"
			}
		case OpSetDesired, OpAttach, OpTags:
			if c.Target != g.ASG {
				bad = "other group's ASG " + c.Target
			}
		case OpTerminateASG:
			if _, ok := a.ByInst[c.Target]; !ok {
				bad = "instance backs no node of this group's view"
			} else if k := gs.KnownAtList; k != nil && k.Valid && !gs.KnownAmbiguous && !gs.MembersAmbiguous {
				if _, member := k.Instances[c.Target]; !member {
					// only a cross-group hit is judged here: the instance is a known member of ANOTHER group's ASG
					for _, og := range x.s.cfg.Groups {
						if og.ASG == g.ASG {
							continue
						}
						if ok2 := x.s.w.known[og.ASG]; ok2 != nil && ok2.Valid && !ok2.Ambiguous && !ok2.AmbiguousMembers {
							if _, theirs := ok2.Instances[c.Target]; theirs {
								bad = "instance is a member of another group's cloud group " + og.ASG + ", not of " + g.ASG
							}
						}
					}
				}
			}
		}
		if bad != "" {
			x.check("c12-target")
			x.viol("C12", "c12-target", "", c.Op, fmt.Sprintf("%s %s while processing group %s: %s", c.Op, c.Target, g.Name, bad), c)
			return
		}
	}
	if len(gs.Calls) > 0 {
		x.check("c12-target")
	}
}

// ---- C13 ------------------------------------------------------------------------------

func (x *scanCtx) c13() {
	a, gs := x.a, x.gs
	if gs.Gauges == nil || a.Kind == kListErr {
		return
	}
	get := func(name string) (float64, bool) {
		v, ok := gs.Gauges[name]
		return v, ok && !math.IsNaN(v)
	}
	exactF := func(i *big.Int) float64 { f, _ := new(big.Float).SetInt(i).Float64(); return f }
	for _, p := range [][3]interface{}{{"cpu_request", a.ReqCPU, a.ReqCPULo}, {"mem_request", a.ReqMem, a.ReqMemLo}, {"cpu_capacity", a.CapCPU, a.CapCPULo}, {"mem_capacity", a.CapMem, a.CapMemLo}} {
		name := p[0].(string)
		if got, ok := get(name); ok {
			x.check("c13-totals")
			want := exactF(p[1].(*big.Int))
			// sub-unit quantities: any total between all-rounded-down and all-rounded-up is a correct sum
			if wantLo := exactF(p[2].(*big.Int)); got < wantLo || got > want {
				rule := ifs(strings.HasSuffix(name, "request"), "c13-requests", "c13-capacity")
				x.viol("C13", rule, name, "", fmt.Sprintf("gauge %s = %v, exact total over the view = %v (%d pods, %d untainted nodes)", name, got, want, a.P, a.U))
				return
			}
		}
	}
	if a.Kind == kNormal {
		pctLo := func(r, c *big.Int) float64 {
			if c.Sign() == 0 {
				return 0
			}
			f, _ := new(big.Rat).SetFrac(new(big.Int).Mul(r, big.NewInt(100)), c).Float64()
			return f
		}
		for _, p := range [][4]interface{}{{"cpu_percent", a.UCPU, pctLo(a.ReqCPULo, a.CapCPU), pctLo(a.ReqCPU, a.CapCPULo)}, {"mem_percent", a.UMem, pctLo(a.ReqMemLo, a.CapMem), pctLo(a.ReqMem, a.CapMemLo)}} {
			if got, ok := get(p[0].(string)); ok {
				x.check("c13-percent")
				want, _ := p[1].(*big.Rat).Float64()
				if a.Fractional && got >= p[2].(float64)*(1-1e-9) && got <= math.Max(want, p[3].(float64))*(1+1e-9) {
					continue
				}
				if math.Abs(got-want) > 1e-9*math.Max(1, math.Abs(want)) {
					x.viol("C13", "c13-percent", p[0].(string), "", fmt.Sprintf("gauge %s = %v, exact 100*R/C = %v", p[0], got, want))
					return
				}
			}
		}
	}
}

// ---- C15 ------------------------------------------------------------------------------

func taintMultiset(ts []v1.Taint, skipEsc bool) map[string]int {
	m := map[string]int{}
	for _, t := range ts {
		if skipEsc && t.Key == escTaint {
			continue
		}
		m[fmt.Sprintf("%s=%s:%s@%v", t.Key, t.Value, t.Effect, t.TimeAdded)]++
	}
	return m
}

func sameMultiset(a, b map[string]int) bool {
	if len(a) != len(b) {
		return false
	}
	for k, v := range a {
		if b[k] != v {
			return false
		}
	}
	return true
}

func (x *scanCtx) c15() {
	gs, g := x.gs, x.g
	for _, c := range gs.Calls {
		if c.Op != OpPut && c.Op != OpPatch || c.NodeBody == nil {
			continue
		}
		// Judged by effect, not by how the write was prepared: what the API server held when the write
		// arrived against what the write puts (or, had no fault hit it, would have put) there. A write whose
		// resourceVersion precondition does not match is rejected by the server and changes nothing.
		if c.Stored == nil {
			continue
		}
		if c.NodeBody.ResourceVersion != "" && c.NodeBody.ResourceVersion != c.Stored.ResourceVersion {
			x.s.stats.Probe("node write over a changed object (rejected by its precondition)")
			continue
		}
		x.check("c15")
		if c.PrevGet == nil {
			x.s.stats.Probe("node write without a fresh read")
		}
		prev, body := c.Stored, c.NodeBody
		// everything but spec.taints must be what was stored
		p2, b2 := prev.DeepCopy(), body.DeepCopy()
		p2.Spec.Taints, b2.Spec.Taints = nil, nil
		b2.ResourceVersion = p2.ResourceVersion
		p2.TypeMeta = b2.TypeMeta
		if d := nodeDiff(p2, b2); d != "" {
			x.viol("C15", "c15-collateral", "fields", "", fmt.Sprintf("PUT %s changes more than the escalator taint: %s", c.Target, d), c)
			return
		}
		if !sameMultiset(taintMultiset(prev.Spec.Taints, true), taintMultiset(body.Spec.Taints, true)) {
			x.viol("C15", "c15-collateral", "foreign-taints", "", fmt.Sprintf("PUT %s changes foreign taints: before %s after %s", c.Target, taintsString(prev.Spec.Taints), taintsString(body.Spec.Taints)), c)
			return
		}
		var pe, be []v1.Taint
		for _, t := range prev.Spec.Taints {
			if t.Key == escTaint {
				pe = append(pe, t)
			}
		}
		for _, t := range body.Spec.Taints {
			if t.Key == escTaint {
				be = append(be, t)
			}
		}
		if len(prev.Spec.Taints) >= 3 && len(be) < len(pe) {
			x.s.stats.Probe("untaint on a node with >=3 taints")
		}
		switch {
		case len(pe) == 0 && len(be) == 1:
			t := be[0]
			wantEff := v1.TaintEffect(g.TaintEffect)
			if wantEff == "" {
				wantEff = v1.TaintEffectNoSchedule
			}
			if t.Effect != wantEff {
				x.viol("C15", "c15-add", "effect", "", fmt.Sprintf("taint added with effect %q, configured %q", t.Effect, wantEff), c)
				return
			}
			sec, err := parseDecimal(t.Value)
			lo := x.rec.Start // "current": read in this scan, not after the write was sent
			if err != nil || sec < lo.Unix() || sec > c.T0.Unix() {
				x.viol("C15", "c15-add", "value", "", fmt.Sprintf("taint value %q is not the current Unix time (the scan began at %d, write sent at %d)", t.Value, lo.Unix(), c.T0.Unix()), c)
				return
			}
			if c.Stored != nil && hasTaintKey(c.Stored, escTaint) {
				x.s.stats.Probe("taint PUT raced with another writer's taint (rejected by conflict)")
			}
			if prevTaintedEarlier(x.s, c.Target) {
				x.s.stats.Probe("re-taint cycle")
			}
			noteTainted(x.s, c.Target)
		case len(be) == len(pe)-1 && len(pe) >= 1:
			// removal of exactly one taint under escalator's key (foreign taints were compared above)
		case len(pe) == len(be):
			for i := range pe {
				if pe[i] != be[i] {
					x.viol("C15", "c15-restamp", "", "", fmt.Sprintf("PUT %s rewrites the existing escalator taint %v -> %v", c.Target, pe[i], be[i]), c)
					return
				}
			}
			x.s.stats.Probe("node write that changes nothing")
		default:
			x.viol("C15", ifs(len(be) > len(pe), "c15-add", "c15-remove"), "count", "", fmt.Sprintf("escalator taints before %v after %v", pe, be), c)
			return
		}
	}
	for _, at := range x.a.Attempts {
		if at.Kind == "taint" && at.GetOK && at.Present && at.Put == nil {
			x.s.stats.Probe("taint skipped: fresh GET already shows the taint")
		}
	}
}

func (x *scanCtx) getTimeOf(put *Call) time.Time {
	var t time.Time
	for _, c := range x.gs.Calls {
		if c.Seq >= put.Seq {
			break
		}
		if c.Op == OpGet && c.Target == put.Target && c.Err == "" {
			t = c.T0
		}
	}
	if t.IsZero() {
		return put.T0
	}
	return t
}

func parseDecimal(s string) (int64, error) {
	if s == "" {
		return 0, fmt.Errorf("empty")
	}
	var v int64
	for _, r := range s {
		if r < '0' || r > '9' {
			return 0, fmt.Errorf("not decimal")
		}
		v = v*10 + int64(r-'0')
		if v < 0 {
			return 0, fmt.Errorf("overflow")
		}
	}
	return v, nil
}

func prevTaintedEarlier(s *Supervisor, node string) bool { return s.everTainted[node] }
func noteTainted(s *Supervisor, node string) {
	if s.everTainted == nil {
		s.everTainted = map[string]bool{}
	}
	s.everTainted[node] = true
}

func nodeDiff(a, b *v1.Node) string {
	var d []string
	if !mapsEqual(a.Labels, b.Labels) {
		d = append(d, fmt.Sprintf("labels %v -> %v", a.Labels, b.Labels))
	}
	if !mapsEqual(a.Annotations, b.Annotations) {
		d = append(d, fmt.Sprintf("annotations %v -> %v", a.Annotations, b.Annotations))
	}
	if a.Name != b.Name || a.UID != b.UID || a.ResourceVersion != b.ResourceVersion || !a.CreationTimestamp.Equal(&b.CreationTimestamp) {
		d = append(d, "metadata identity/resourceVersion")
	}
	if a.Spec.Unschedulable != b.Spec.Unschedulable || a.Spec.ProviderID != b.Spec.ProviderID || a.Spec.PodCIDR != b.Spec.PodCIDR {
		d = append(d, "spec")
	}
	if !apiequality.Semantic.DeepEqual(a.Status, b.Status) {
		d = append(d, "status: "+jsonOf(a.Status)+" -> "+jsonOf(b.Status))
	}
	return strings.Join(d, "; ")
}

func mapsEqual(a, b map[string]string) bool {
	if len(a) != len(b) {
		return false
	}
	for k, v := range a {
		if bv, ok := b[k]; !ok || bv != v {
			return false
		}
	}
	return true
}

// identicalRetries: every call but the last failed without effect and all of them ask for the very same
// thing (the same absolute desired size, or a fleet of the same size). "In one call" rules out reaching
// the target in steps; it does not rule out repeating a request that was refused.
func identicalRetries(calls []*Call) bool {
	for i, c := range calls {
		if c.Op != calls[0].Op || c.Target != calls[0].Target {
			return false
		}
		if c.Op == OpSetDesired && c.Desired != calls[0].Desired {
			return false
		}
		if c.Op == OpCreateFleet && c.FleetTotal != calls[0].FleetTotal {
			return false
		}
		if i < len(calls)-1 && (c.Err == "" || c.Applied && c.Op == OpCreateFleet) {
			return false
		}
	}
	return true
}

// ---- C17 / C18 / C19 (as met in the controller's own call patterns) --------------------

func (x *scanCtx) c17() {
	a, gs, g := x.a, x.gs, x.g
	nSet, nFleet := 0, 0
	for _, c := range a.Increase {
		x.check("c17")
		switch c.Op {
		case OpSetDesired:
			nSet++
			if c.Known != nil && c.Known.Valid && c.Desired <= c.Known.Desired {
				x.viol("C17", "c17-lowered", "", "", fmt.Sprintf("scale-up issued SetDesiredCapacity(%d) with known desired %d", c.Desired, c.Known.Desired), c)
			}
			if g.LaunchTemplateID != "" {
				x.viol("C17", "c17-exact", "mode", "", "SetDesiredCapacity used although a launch template (fleet mode) is configured", c)
			}
		case OpCreateFleet:
			nFleet++
			life := g.Lifecycle
			if life == "" {
				life = "on-demand"
			}
			if c.FleetType != "instant" || c.FleetLifecycle != life || c.FleetMin != c.FleetTotal || c.FleetOther != -1 || c.FleetTotal <= 0 {
				x.viol("C17", "c17-fleet-request", "", "", fmt.Sprintf("CreateFleet type=%s lifecycle=%s total=%d min(matching block)=%d min(other block)=%d; configured lifecycle %s", c.FleetType, c.FleetLifecycle, c.FleetTotal, c.FleetMin, c.FleetOther, life), c)
			}
		}
	}
	if nSet+nFleet > 1 && !identicalRetries(a.Increase) {
		x.viol("C17", "c17-exact", "calls", "", fmt.Sprintf("%d SetDesiredCapacity and %d CreateFleet calls for one scale-up", nSet, nFleet), a.Increase...)
	}
	// attach: each acquired instance exactly once, <= 20 per call
	var fleet *Call
	seen := map[string]int{}
	attachFailed, terminated := false, false
	for _, c := range gs.Calls {
		switch c.Op {
		case OpCreateFleet:
			if c.Err == "" && len(c.IDs) > 0 {
				fleet = c
			}
		case OpAttach:
			if len(c.IDs) > 20 || len(c.IDs) == 0 {
				x.viol("C17", "c17-attach-once", "batch", "", fmt.Sprintf("AttachInstances with %d ids", len(c.IDs)), c)
				return
			}
			if c.Err != "" {
				attachFailed = true
			} else {
				for _, id := range c.IDs {
					seen[id]++
				}
			}
		case OpTerminateEC2:
			terminated = true
		}
	}
	if fleet != nil && !attachFailed && !terminated && !x.rec.Outcome.EndsLifetime() {
		for _, id := range fleet.IDs {
			if seen[id] != 1 {
				x.viol("C17", "c17-attach-once", "", "", fmt.Sprintf("fleet instance %s attached %d times", id, seen[id]), fleet)
				return
			}
		}
		if len(seen) != len(fleet.IDs) {
			x.viol("C17", "c17-attach-once", "foreign", "", "AttachInstances named instances the fleet did not return", fleet)
		}
	}
}

func (x *scanCtx) c18() {
	gs := x.gs
	var fleet *Call
	acked := map[string]bool{}
	term := map[string]bool{}
	anyFailure := false
	for _, c := range gs.Calls {
		switch c.Op {
		case OpCreateFleet:
			if c.Err == "" && len(c.IDs) > 0 {
				fleet = c
			}
		case OpAttach:
			if c.Err == "" {
				for _, id := range c.IDs {
					acked[id] = true
				}
			} else {
				anyFailure = true
			}
		case OpTerminateEC2:
			anyFailure = true
			if len(c.IDs) > 1000 {
				x.viol("C18", "c18-batch", "", "terminateOrphanedInstances", fmt.Sprintf("TerminateInstances with %d ids", len(c.IDs)), c)
				return
			}
			for _, id := range c.IDs {
				term[id] = true
			}
		}
	}
	if fleet == nil {
		return
	}
	x.check("c18")
	if x.rec.Outcome.Crash {
		return
	}
	for _, id := range fleet.IDs {
		switch {
		case acked[id] && term[id]:
			x.viol("C18", "c18-both", "", "", fmt.Sprintf("instance %s both attached (acknowledged) and submitted for termination", id), fleet)
			return
		case !acked[id] && !term[id]:
			x.viol("C18", "c18-neither", "", "", fmt.Sprintf("instance %s neither attached nor submitted for termination", id), fleet)
			return
		}
	}
	if anyFailure {
		x.s.stats.Probe("fleet scale-up failed after instances were acquired")
	}
}

func (x *scanCtx) c19() {
	a, gs := x.a, x.gs
	if len(a.Terminates) == 0 && len(a.Deletes) == 0 {
		return
	}
	x.check("c19")
	// instance + decrement
	for _, c := range a.Terminates {
		if !c.DecrementSet || !c.Decrement {
			x.viol("C19", "c19-instance", "decrement", "", fmt.Sprintf("terminate of %s without desired-capacity decrement", c.Target), c)
			return
		}
	}
	// per removal request on the provider (its boundaries are recorded at the cloudprovider.NodeGroup seam):
	// never more terminates than desired - min allows; a Node object goes only after a request that contained
	// it returned without error, i.e. after the cloud accepted that entire batch
	inReq := func(r *ProvReq, c *Call) bool { return c.Seq > r.Seq0 && (!r.Done || c.Seq <= r.Seq1) }
	nDel := 0
	for _, r := range gs.Reqs {
		if r.Kind != "delete" {
			continue
		}
		nDel++
		var terms []*Call
		for _, c := range a.Terminates {
			if inReq(r, c) {
				terms = append(terms, c)
			}
		}
		if len(terms) > 20 {
			x.s.stats.Probe("reap batch of more than 20 nodes")
		}
		if len(terms) > 0 && terms[0].Known != nil && terms[0].Known.Valid {
			k := terms[0].Known
			if int64(len(terms)) > k.Desired-k.Min {
				site := ""
				if nDel > 1 && hasAckedTerminate(gs) {
					site = "second-batch-in-scan"
				}
				x.viol("C19", "c19-count", "", site, fmt.Sprintf("%d terminate calls in one removal request with known desired %d and min %d", len(terms), k.Desired, k.Min), terms...)
				return
			}
		}
	}
	if nDel > 1 {
		x.s.stats.Probe("two removal batches in one scan")
	}
	okTerm := map[string]bool{}
	for _, c := range a.Terminates {
		if c.Err == "" {
			okTerm[a.ByInst[c.Target]] = true
		}
	}
	for _, d := range a.Deletes {
		var req *ProvReq
		for _, r := range gs.Reqs {
			if r.Kind == "delete" && r.has(d.Target) && r.Seq0 < d.Seq {
				req = r // the latest request before the DELETE that was given this node
			}
		}
		switch {
		case req == nil:
			x.viol("C19", "c19-order", "delete-without-terminate", "", fmt.Sprintf("DELETE %s although no removal request given to the cloud provider contained it", d.Target), d)
			return
		case !req.Done || d.Seq <= req.Seq1:
			x.viol("C19", "c19-order", "delete-before-terminate", "", fmt.Sprintf("DELETE %s issued before the cloud accepted the whole batch", d.Target), d)
			return
		case req.Err != "":
			x.viol("C19", "c19-order", "delete-after-failure", "", fmt.Sprintf("DELETE %s although the removal request that contained it failed (%s)", d.Target, trunc(req.Err, 60)), d)
			return
		case !okTerm[d.Target]:
			x.viol("C19", "c19-order", "delete-without-terminate", "", fmt.Sprintf("DELETE %s with no acknowledged terminate of its instance", d.Target), d)
			return
		}
	}
}

// c19Fatal: a removal request handed to the provider that contains a node which is not a member of the
// known ASG must stop with the not-in-group error, and that makes RunOnce return it (escalator exits rather
// than continues). Judged on the requests as recorded at the cloudprovider.NodeGroup seam, so neither the
// order the code works in, nor a cap on removals per scan, nor a re-read that drops a stale candidate matter.
func (x *scanCtx) c19Fatal() {
	a, gs := x.a, x.gs
	if x.rec.Outcome.Crash || x.rec.Outcome.Panic != "" || x.rec.Outcome.Exit {
		return
	}
	if gs.KnownAmbiguous || gs.MembersAmbiguous || preFaulted(x.rec) {
		return
	}
	for _, r := range gs.Reqs {
		if r.Kind != "delete" || !r.Done {
			continue
		}
		k := r.Known
		if k == nil || !k.Valid {
			continue
		}
		member := func(n *v1.Node) bool {
			pid, ok := k.Instances[instanceOf(n.Spec.ProviderID)]
			return ok && pid == n.Spec.ProviderID
		}
		foreign := map[string]*v1.Node{}
		first := ""
		unknown := false
		for _, name := range r.Nodes {
			n, ok := a.Node[name]
			if !ok {
				unknown = true // not a node of the view: C01/C12 speak about that
				continue
			}
			if !member(n) {
				foreign[name] = n
				if first == "" {
					first = name
				}
			}
		}
		if first == "" || unknown {
			continue
		}
		// DESIGN 4.3-3: exact outcomes need every call acknowledged, natural refusals included: a terminate the
		// cloud refused ends the request with a plain error before the non-member is reached. A request refused
		// as a whole at the ASG minimum never looks at its nodes either.
		refused := false
		nTerms := 0
		for _, c := range a.Terminates {
			if c.Seq > r.Seq0 && c.Seq <= r.Seq1 {
				nTerms++
				if c.Err != "" {
					refused = true
				}
			}
		}
		if refused || k.Desired <= k.Min || k.Desired-int64(len(r.Nodes)) < k.Min {
			continue
		}
		x.check("c19-fatal")
		x.s.stats.Probe("removal request contains a non-member")
		phase := ifs(a.Class[first] == clForce, "force", "grace")
		if _, ok := foreign[r.NotInGroup]; !ok {
			x.viol("C19", "c19-fatal", "request", phase, fmt.Sprintf("the removal request contains %s (%q) which is not a member of the known ASG: it must stop with the not-in-group error naming a non-member; it ended with err=%q (known desired %d min %d, %d nodes given)", first, foreign[first].Spec.ProviderID, r.Err, k.Desired, k.Min, len(r.Nodes)))
			return
		}
		if _, ok := foreign[x.rec.Outcome.NotInGroupNode]; !ok {
			x.viol("C19", "c19-fatal", "", phase, fmt.Sprintf("the removal request for %s ended with the not-in-group error, which must stop RunOnce; it ended with err=%q", r.NotInGroup, x.rec.Outcome.Err))
			return
		}
		for _, c := range a.Terminates {
			if n, ok := a.ByInst[c.Target]; ok && foreign[n] != nil && c.Seq > r.Seq0 && c.Seq <= r.Seq1 {
				x.viol("C19", "c19-fatal", "terminated", phase, fmt.Sprintf("the instance of the non-member %s was submitted for termination", n), c)
				return
			}
		}
	}
}

func hasAckedTerminate(gs *GroupScan) bool {
	for _, c := range gs.Calls {
		if c.Op == OpTerminateASG && c.Err == "" {
			return true
		}
	}
	return false
}

func hasAckedForceTerminate(gs *GroupScan) bool {
	for _, c := range gs.Calls {
		if c.Op == OpTerminateASG && c.Phase == "force" && c.Err == "" {
			return true
		}
	}
	return false
}

// ---- C20 ------------------------------------------------------------------------------

func (s *Supervisor) checkOutcome(rec *ScanRecord) {
	o := rec.Outcome
	st := s.stats
	{
		h := newHasher()
		for _, gs := range rec.Groups {
			h.add(gs)
		}
		for _, c := range rec.Pre {
			h.h.Write([]byte(c.Op + c.Fault))
		}
		h.h.Write([]byte(fmt.Sprintf("|%v|%v|%v|%v", o.Err != "", o.Crash, o.Exit, o.Panic != "")))
		if rec.FaultsFired > 0 || o.EndsLifetime() {
			st.Check("c20-faulted-scan", h.sum())
		} else {
			st.Check("c20-clean-scan", h.sum())
		}
	}
	if o.Panic != "" {
		s.violate(Violation{Property: "C20", Rule: "c20-panic", Site: panicSite(o.Stack), Scan: rec.Index, Life: rec.Life, Detail: "RunOnce panicked: " + o.Panic, Excerpt: stackExcerpt(o.Stack)})
		return
	}
	// wedge: virtual duration beyond what sleeps, timeouts and injected latency explain
	var inCall time.Duration
	throttles := 0
	calls := rec.AllCalls()
	for _, c := range calls {
		inCall += c.T1.Sub(c.T0)
		if c.Fault == FThrottle {
			throttles++
		}
	}
	// "never hangs": time a scan spends outside calls and outside the documented fleet wait is bounded by a
	// generous constant (retry pauses and back-off are the code's business; a hang is unbounded)
	budget := 5*time.Minute + inCall + time.Duration(throttles)*3*time.Second
	for _, gs := range rec.Groups {
		for _, c := range gs.Calls {
			if c.Op == OpCreateFleet {
				g := s.groupCfg(gs.Group)
				to := time.Minute
				if g.FleetTimeout != "" {
					to, _ = time.ParseDuration(g.FleetTimeout)
				}
				budget += to + 3*time.Second
			}
		}
	}
	if s.cfg.QPS {
		budget += time.Duration(len(calls)) * 300 * time.Millisecond
	}
	if d := rec.End.Sub(rec.Start); d > budget {
		s.violate(Violation{Property: "C20", Rule: "c20-wedge", Site: "scan-duration", Scan: rec.Index, Life: rec.Life, Detail: fmt.Sprintf("scan took %v of virtual time, explained budget %v", d, budget)})
	}
	// consecutive failed fleet scale-ups per group (the documented reason for a process exit is the third)
	exitGroup := ""
	for _, gs := range rec.Groups {
		failed, succeeded := false, false
		for _, c := range gs.Calls {
			if c.Op == OpTerminateEC2 {
				failed = true
			}
			if c.Op == OpAttach && c.Err == "" {
				succeeded = true
			}
		}
		if failed {
			s.fleetFailures[gs.Group]++
			exitGroup = gs.Group
		} else if succeeded {
			s.fleetFailures[gs.Group] = 0
		}
	}
	if o.Exit {
		switch {
		case exitGroup == "":
			s.violate(Violation{Property: "C20", Rule: "c20-stop", Sub: "exit", Scan: rec.Index, Life: rec.Life, Detail: "the process exited (log.Fatal) in a scan without any failed fleet scale-up"})
		case s.fleetFailures[exitGroup] < 3:
			d := fmt.Sprintf("the process exited while group %s met only its consecutive fleet failure number %d (failures so far per group: %v)", exitGroup, s.fleetFailures[exitGroup], s.fleetFailures)
			s.violate(Violation{Property: "C20", Rule: "c20-stop", Sub: "exit-early", Scan: rec.Index, Life: rec.Life, Group: exitGroup, Detail: d})
			s.violate(Violation{Property: "C12", Rule: "c12-cross-group-exit", Scan: rec.Index, Life: rec.Life, Group: exitGroup, Detail: d + ": failures of other groups were charged to this one and the later groups were never processed"})
		default:
			st.Probe("third consecutive fleet failure ends the lifetime")
		}
		return
	}
	if o.Err != "" {
		badDescribes := 0
		for _, c := range rec.Pre {
			if c.Op == OpDescribeASG && (c.Err != "" || c.Fault == FFewer) {
				badDescribes++
			}
		}
		switch {
		case o.NotInGroupNode != "":
			legit := false
			for _, gs := range rec.Groups {
				if gs.A == nil {
					continue
				}
				if n, ok := gs.A.Node[o.NotInGroupNode]; ok {
					k := gs.KnownAtList
					if k == nil || !k.Valid || gs.KnownAmbiguous || gs.MembersAmbiguous {
						legit = true
					} else if _, member := k.Instances[instanceOf(n.Spec.ProviderID)]; !member {
						legit = true
					} else if k.Instances[instanceOf(n.Spec.ProviderID)] != n.Spec.ProviderID {
						legit = true
					}
				}
			}
			if legit {
				st.Probe("documented not-in-group stop")
			} else {
				s.violate(Violation{Property: "C20", Rule: "c20-stop", Sub: "not-in-group", Scan: rec.Index, Life: rec.Life, Detail: "RunOnce stopped with not-in-group for " + o.NotInGroupNode + " although the node's instance is a member of the known ASG"})
				s.violate(Violation{Property: "C19", Rule: "c19-foreign", Sub: "member-refused", Site: "controller", Scan: rec.Index, Life: rec.Life, Detail: "the removal request stopped with the not-in-group error for " + o.NotInGroupNode + " although its instance is a member of the known ASG (as of the last refresh answer)"})
			}
		case exitGroup != "" && s.fleetFailures[exitGroup] >= 3:
			// the documented give-up after the third consecutive failed fleet scale-up, delivered as an error
			// up the stack instead of an exit deep inside the provider: the property names the stop, not the mechanism
			st.Probe("third consecutive fleet failure ends the lifetime (returned as an error)")
		case badDescribes >= 2:
			st.Probe("credential-refresh path gave up after repeated Describe failures")
		default:
			s.violate(Violation{Property: "C20", Rule: "c20-stop", Sub: "error", Site: trunc(o.Err, 40), Scan: rec.Index, Life: rec.Life, Detail: fmt.Sprintf("RunOnce returned %q (%s) with %d failed Describe calls in the refresh path", o.Err, o.ErrType, badDescribes)})
		}
	}
	if badRefresh := countFailedDescribes(rec.Pre); badRefresh == 1 && o.Err == "" && !o.Crash {
		st.Probe("refresh failed once, rebuild succeeded, scan went on")
	}
}

func countFailedDescribes(cs []*Call) int {
	n := 0
	for _, c := range cs {
		if c.Op == OpDescribeASG && c.Err != "" {
			n++
		}
	}
	return n
}
