package harness

// The simulated world: event heap, seam-call bookkeeping (journal, faults,
// interleaving), and the lifetime-independent state shared by the simulated
// API server and AWS.

import (
	"container/heap"
	"crypto/sha256"
	"encoding/hex"
	"fmt"
	"hash"
	"runtime"
	"sort"
	"strings"
	"sync/atomic"
	"time"

	"github.com/aws/aws-sdk-go/service/autoscaling"
	awsapi "github.com/aws/aws-sdk-go/aws"
	v1 "k8s.io/api/core/v1"
)

var execCounter uint64

type crashSentinel struct{ at string }
type exitSentinel struct{ code int }

// deathNote: how the process of the code under test ended inside a call (simulated kill, or its own exit).
type deathNote struct {
	crash bool
	at    string
	code  int
}

// die ends the code under test right here. Under the controller supervisor (which runs it in a goroutine of
// its own and sets goexit) that is runtime.Goexit: unlike a panic it cannot be caught by a recover() in
// the code under test - a process that is killed does not get to handle it either. Deferred functions still
// run; any seam call they make is refused the same way. The provider-level driver keeps the panic sentinel.
func (w *World) die(n deathNote) {
	if !w.goexit {
		if n.crash {
			panic(crashSentinel{at: n.at})
		}
		panic(exitSentinel{n.code})
	}
	if w.dead == nil {
		w.dead = &n
	}
	runtime.Goexit()
}

type event struct {
	at  time.Time
	seq uint64
	fn  func()
	tag string
}
type eventHeap []*event

func (h eventHeap) Len() int { return len(h) }
func (h eventHeap) Less(i, j int) bool {
	if !h[i].at.Equal(h[j].at) {
		return h[i].at.Before(h[j].at)
	}
	return h[i].seq < h[j].seq
}
func (h eventHeap) Swap(i, j int)       { h[i], h[j] = h[j], h[i] }
func (h *eventHeap) Push(x interface{}) { *h = append(*h, x.(*event)) }
func (h *eventHeap) Pop() interface{} {
	old := *h
	n := len(old)
	x := old[n-1]
	*h = old[:n-1]
	return x
}

type Stats struct {
	Faults   map[string]int // fault kind -> times fired
	World    map[string]int // world event kind -> count
	Probes   map[string]int // rare-condition probes
	Calls    map[string]int
	Scans, CleanScans, CalmScans, FaultyScans int
	Lifetimes, Crashes, Exits, StartFailures int
	SimSeconds float64
	States   map[uint64]struct{} // distinct abstract per-scan states
	Inter    map[uint64]struct{} // distinct per-scan call/event kind sequences
	Checked  map[string]map[uint64]struct{} // rule -> distinct abstract states in which the rule had something to check
	Shapes   map[string]int
	RejectedCfg int
}

func newStats() *Stats {
	return &Stats{Faults: map[string]int{}, World: map[string]int{}, Probes: map[string]int{}, Calls: map[string]int{},
		States: map[uint64]struct{}{}, Inter: map[uint64]struct{}{}, Checked: map[string]map[uint64]struct{}{}, Shapes: map[string]int{}}
}

func (s *Stats) Fault(k string) { s.Faults[k]++ }
func (s *Stats) Probe(k string) { s.Probes[k]++ }
func (s *Stats) Check(rule string, state uint64) {
	m, ok := s.Checked[rule]
	if !ok {
		m = map[uint64]struct{}{}
		s.Checked[rule] = m
	}
	m[state] = struct{}{}
}

type World struct {
	ch    *Choices
	cfg   *RunCfg
	prof  Profile
	stats *Stats
	kube  *Kube
	aws   *AWSSim
	groups []*GroupWorld

	events eventHeap
	evSeq  uint64

	// journal
	seq      int
	ctx      string // group context
	life     int
	scan     *ScanRecord
	gscan    *GroupScan
	goexit   bool       // see die
	dead     *deathNote // set once the code under test has been ended inside a call
	occ      map[string]int
	known    map[string]*KnownASG
	lastGet  map[string]*v1.Node
	inCall   bool
	startup  bool

	logHash hash.Hash
	logKeep bool
	logLines []string
	pendingDescribeLines []string

	noFaults bool // set while the harness itself talks to the seams
	execID   uint64 // process-wide execution counter: object UIDs are unique per execution, so process-global state
	// in the code under test (e.g. a cache keyed by UID) cannot leak from one in-process execution into the next
	lastTerminateNode map[string]string // group -> node whose instance escalator last tried to terminate
	recordKeys bool
	callKeys []string // "<group>/<op>#<occ>" of every seam call, in order (single-fault sweep)
}

func newWorld(ch *Choices, cfg *RunCfg, prof Profile, stats *Stats, keepLog bool) *World {
	w := &World{ch: ch, cfg: cfg, prof: prof, stats: stats, occ: map[string]int{}, known: map[string]*KnownASG{}, lastGet: map[string]*v1.Node{},
		logHash: sha256.New(), logKeep: keepLog}
	w.execID = atomic.AddUint64(&execCounter, 1)
	w.kube = newKube(w)
	w.aws = newAWS(w)
	for _, g := range cfg.Groups {
		w.groups = append(w.groups, newGroupWorld(w, g))
	}
	return w
}

func (w *World) groupByName(name string) *GroupWorld {
	for _, g := range w.groups {
		if g.cfg.Name == name {
			return g
		}
	}
	return nil
}

func (w *World) groupByASG(asg string) *GroupWorld {
	for _, g := range w.groups {
		if g.cfg.ASG == asg {
			return g
		}
	}
	return nil
}

// ---- event log -------------------------------------------------------------

func (w *World) logf(format string, a ...interface{}) {
	line := fmt.Sprintf(format, a...)
	w.logHash.Write([]byte(line))
	w.logHash.Write([]byte{'\n'})
	if w.logKeep {
		w.logLines = append(w.logLines, line)
	}
}

func (w *World) LogHash() string { return hex.EncodeToString(w.logHash.Sum(nil)) }

// ---- events ----------------------------------------------------------------

func (w *World) at(t time.Time, tag string, fn func()) {
	w.evSeq++
	heap.Push(&w.events, &event{at: t, seq: w.evSeq, fn: fn, tag: tag})
}

func (w *World) after(d time.Duration, tag string, fn func()) { w.at(time.Now().Add(d), tag, fn) }

// catchUp applies every world event whose time has come.
func (w *World) catchUp() {
	if w.startup {
		return // the world is caught up lazily after start-up (keeps the informer snapshot and the simulated caches comparable)
	}
	now := time.Now()
	for w.events.Len() > 0 && !w.events[0].at.After(now) {
		e := heap.Pop(&w.events).(*event)
		e.fn()
	}
}

// ---- seam-call bookkeeping -----------------------------------------------------

func (w *World) asgOfCtx() string {
	if g := w.groupByName(w.ctx); g != nil {
		return g.cfg.ASG
	}
	return ""
}

func (w *World) beginCall(op, target string) *Call {
	if w.dead != nil {
		runtime.Goexit() // a deferred function of the ended process trying to talk to the world
	}
	w.catchUp()
	w.seq++
	c := &Call{Seq: w.seq, T0: time.Now(), Group: w.ctx, Op: op, Target: target, Life: w.life}
	if w.scan != nil {
		c.Scan = w.scan.Index
	} else {
		c.Scan = -1
	}
	w.stats.Calls[op]++
	if w.gscan != nil && w.ctx != "" && w.gscan.Gauges == nil && isMutating(op) {
		// what the code publishes about its view and its sums is read when it starts to act (or, if it does not
		// act, when the scan returns): a gauge it keeps current while acting would otherwise be compared with the view
		w.gscan.Gauges = readGauges(w.gscan.Group)
	}
	if asg := w.asgOfCtx(); asg != "" && (isMutating(op) && strings.HasPrefix(op, "asg.") || op == OpCreateFleet) {
		c.Known = w.known[asg].clone()
	}
	if w.ctx != "" && !w.noFaults && op != OpDescribeInst {
		w.interleave(c)
	}
	return c
}

func perTarget(op string) bool {
	switch op {
	case OpDescribeInst, OpGet, OpPut, OpPatch, OpDelete, OpTerminateASG:
		return true
	}
	return false
}

func (w *World) faultStream(c *Call) *Stream {
	if perTarget(c.Op) {
		return w.ch.S("f/" + c.Group + "/" + c.Op + "/" + c.Target)
	}
	return w.ch.S("f/" + c.Group + "/" + c.Op)
}

var faultsByOp = map[string][]string{
	OpGet:          {FErrBefore, FNotFound, FThrottle, FLatency},
	OpPut:          {FErrBefore, FErrAfter, FConflict, FNotFound, FThrottle, FLatency},
	OpDelete:       {FErrBefore, FErrAfter, FNotFound, FThrottle, FLatency},
	OpDescribeASG:  {FErrBefore, FStale, FFewer, FLatency},
	OpSetDesired:   {FErrBefore, FErrAfter, FLatency},
	OpTerminateASG: {FErrBefore, FErrAfter, FLatency},
	OpAttach:       {FErrBefore, FErrAfter, FLatency},
	OpTags:         {FErrBefore},
	OpCreateFleet:  {FErrBefore, FErrorsOnly, FErrorsPlus, FLatency},
	OpStatus:       {FErrBefore},
	OpDescribeInst: {FErrBefore, FMalformed},
	OpTerminateEC2: {FErrBefore, FErrAfter},
}

// drawFault decides the fault for this call (step 4 of a yield point). Crashes
// are raised here (crash-before) or armed for endCall (crash-after).
func (w *World) drawFault(c *Call) string {
	key := fmt.Sprintf("%s/%s", c.Group, c.Op)
	plainKey := ""
	if perTarget(c.Op) {
		// Calls that name one node or instance draw from a stream of that target, and their occurrence is
		// counted per target: which of them is hit then does not depend on the order in which the code under
		// test works through a set (it may come out of a Go map). Forced faults of the directed cases may
		// still name "the k-th call of this kind".
		if c.Op != OpDescribeInst {
			w.occ[key]++
			plainKey = fmt.Sprintf("%s#%d", key, w.occ[key])
		}
		key += "/" + c.Target
	}
	w.occ[key]++
	occ := w.occ[key]
	s := w.faultStream(c)
	fp := w.cfg.FaultP
	if b, ok := w.prof.FaultBias[c.Op]; ok {
		fp *= b
		if fp > 0.5 {
			fp = 0.5
		}
	}
	hit := s.Chance(fp)
	kindIdx := s.U32()
	crash := s.Chance(w.cfg.CrashP)
	crashAfter := s.U32()&1 == 1
	if w.noFaults || w.cfg.FaultOnlyGroup != "" && c.Group != w.cfg.FaultOnlyGroup {
		return FNone
	}
	if w.recordKeys {
		w.callKeys = append(w.callKeys, fmt.Sprintf("%s#%d", key, occ))
	}
	fault := FNone
	if forced, ok := w.cfg.ForceFault[fmt.Sprintf("%s#%d", key, occ)]; ok {
		fault = forced
	} else if forced, ok := w.cfg.ForceFault[plainKey]; ok && plainKey != "" {
		fault = forced
	} else if hit {
		kinds := faultsByOp[c.Op]
		var enabled []string
		for _, k := range kinds {
			if w.cfg.Faults[k] {
				enabled = append(enabled, k)
			}
		}
		if len(enabled) > 0 {
			fault = enabled[int(kindIdx%uint32(len(enabled)))]
		}
	}
	if fault == FCrashAfter && !isMutating(c.Op) {
		fault = FCrashBefore
	}
	if (fault == FCrashBefore || fault == FCrashAfter) && w.startup {
		fault = FNone
	}
	if c.Op == OpDescribeInst && (fault == FCrashBefore || fault == FCrashAfter || crash) {
		// never crash inside the map-ordered lookup loop: which calls precede the crash would depend on map order
		if fault == FCrashBefore || fault == FCrashAfter {
			fault = FNone
		}
		crash = false
	}
	if fault == FNone && crash && !w.startup {
		if crashAfter && isMutating(c.Op) {
			fault = FCrashAfter
		} else {
			fault = FCrashBefore
		}
	}
	if fault == FNone {
		return FNone
	}
	c.Fault = fault
	w.stats.Fault(fault)
	w.markFaulted()
	switch fault {
	case FLatency:
		d := time.Duration(1+int(kindIdx>>8)%20) * 500 * time.Millisecond
		time.Sleep(d)
		w.catchUp()
		return FNone // the call then proceeds normally
	case FCrashBefore:
		w.endCall(c, false, "crash")
		w.die(deathNote{crash: true, at: c.Op + " before"})
	case FCrashAfter:
		return FErrAfterCrash
	}
	return fault
}

// FErrAfterCrash is returned to the seam as "apply, then crash".
const FErrAfterCrash = "apply-then-crash"

func (w *World) markFaulted() {
	if w.gscan != nil {
		w.gscan.Faulted = true
	}
	if w.scan != nil {
		w.scan.FaultsFired++
	}
}

func (w *World) endCall(c *Call, applied bool, errStr string) {
	c.T1 = time.Now()
	c.Applied = applied
	c.Err = errStr
	// known-ASG model: adjust by escalator's own acknowledged writes
	if errStr == "" {
		switch c.Op {
		case OpSetDesired:
			if k := w.known[c.Target]; k != nil {
				k.Desired = c.Desired
			}
		case OpTerminateASG:
			if i, ok := w.aws.insts[c.Target]; ok {
				if k := w.known[i.ASG]; k != nil {
					if c.Decrement {
						k.Desired--
					}
					// membership (Instances) is what the last folded Describe answer said, exactly as the
					// provider's own cache: it is NOT edited by escalator's writes (only desired capacity is)
				}
			}
		case OpAttach:
			if k := w.known[c.Target]; k != nil {
				k.Desired += int64(len(c.IDs))
			}
		}
	}
	if w.gscan != nil && c.Group != "" {
		w.gscan.Calls = append(w.gscan.Calls, c)
	} else if w.scan != nil {
		w.scan.Pre = append(w.scan.Pre, c)
	}
	line := c.Line()
	if c.Op == OpDescribeInst {
		// map-ordered in the code under test: canonicalise contiguous runs
		w.pendingDescribeLines = append(w.pendingDescribeLines, line)
	} else {
		w.flushDescribeLines()
		w.logf("call %s", line)
	}
	if c.Fault == FCrashAfter {
		w.flushDescribeLines()
		w.die(deathNote{crash: true, at: c.Op + " after"})
	}
}

func (w *World) flushDescribeLines() {
	if len(w.pendingDescribeLines) == 0 {
		return
	}
	sort.Strings(w.pendingDescribeLines)
	for _, l := range w.pendingDescribeLines {
		w.logf("call %s", l)
	}
	w.pendingDescribeLines = nil
}

// noteDescribe folds a Describe answer served to a refresh/build into the
// known-ASG model. Describe calls issued from inside a group's context (the
// fleet path's subnet lookup) do not update the provider's cache and are
// therefore not folded in.
func (w *World) noteDescribe(c *Call, out *autoscaling.DescribeAutoScalingGroupsOutput) {
	if c.Group != "" {
		answered := map[string]bool{}
		for _, g := range out.AutoScalingGroups {
			name := awsapi.StringValue(g.AutoScalingGroupName)
			answered[name] = true
			k := w.known[name]
			if k == nil {
				continue
			}
			sameSize := k.Min == awsapi.Int64Value(g.MinSize) && k.Max == awsapi.Int64Value(g.MaxSize) && k.Desired == awsapi.Int64Value(g.DesiredCapacity)
			sameMembers := len(k.Instances) == len(g.Instances)
			for _, i := range g.Instances {
				if _, ok := k.Instances[awsapi.StringValue(i.InstanceId)]; !ok {
					sameMembers = false
				}
			}
			if !sameSize {
				k.Ambiguous = true
				w.markAmbiguous(name, true)
				w.stats.Probe("known-ASG model ambiguous (a describe outside Refresh answered differently)")
			}
			if !sameMembers {
				k.AmbiguousMembers = true
				w.markAmbiguous(name, false)
				w.stats.Probe("known-ASG membership ambiguous (a describe outside Refresh lists other members)")
			}
		}
		for _, name := range strings.Split(c.Target, ",") {
			if k := w.known[name]; k != nil && !answered[name] {
				k.Ambiguous, k.AmbiguousMembers = true, true
				w.markAmbiguous(name, true)
				w.markAmbiguous(name, false)
			}
		}
		return
	}
	for _, g := range out.AutoScalingGroups {
		k := &KnownASG{Valid: true, Min: awsapi.Int64Value(g.MinSize), Max: awsapi.Int64Value(g.MaxSize), Desired: awsapi.Int64Value(g.DesiredCapacity), Instances: map[string]string{}}
		for _, i := range g.Instances {
			k.Instances[awsapi.StringValue(i.InstanceId)] = fmt.Sprintf("aws:///%s/%s", awsapi.StringValue(i.AvailabilityZone), awsapi.StringValue(i.InstanceId))
		}
		w.known[awsapi.StringValue(g.AutoScalingGroupName)] = k
	}
}

func (w *World) markAmbiguous(asg string, size bool) {
	if w.gscan != nil && w.asgOfCtx() == asg {
		if size {
			w.gscan.KnownAmbiguous = true
		} else {
			w.gscan.MembersAmbiguous = true
		}
	}
}

// listFault decides whether a cache List fails.
func (w *World) listFault(kind string) bool {
	if w.noFaults || w.ctx == "" || w.cfg.FaultOnlyGroup != "" && w.ctx != w.cfg.FaultOnlyGroup {
		return false
	}
	s := w.ch.S("f/" + w.ctx + "/list-" + kind)
	hit := s.Chance(w.cfg.FaultP / 2)
	key := fmt.Sprintf("%s/cache.list-%s", w.ctx, kind)
	w.occ[key]++
	if forced, ok := w.cfg.ForceFault[fmt.Sprintf("%s#%d", key, w.occ[key])]; ok && forced == FListErr {
		hit = true
	} else if !w.cfg.Faults[FListErr] {
		hit = false
	}
	if hit {
		w.stats.Fault(FListErr)
		w.markFaulted()
		w.logf("list-error g=%s %s", w.ctx, kind)
	}
	return hit
}

// listOrder draws the order in which one owner's cached objects are listed.
func (w *World) listOrder(owner, kind string, n int) []int {
	idx := make([]int, n)
	for i := range idx {
		idx[i] = i
	}
	if n < 2 {
		return idx
	}
	s := w.ch.S("order/" + w.ctx + "/" + owner + "/" + kind) // keyed by the listing group too: another group's scan must not advance this stream
	switch s.Pick(3, 2, 3) {
	case 0:
	case 1:
		for i, j := 0, n-1; i < j; i, j = i+1, j-1 {
			idx[i], idx[j] = idx[j], idx[i]
		}
	case 2:
		return s.Perm(n)
	}
	return idx
}

// drawGone: how long a terminating instance is still listed by Describe.
func (w *World) drawGone(i *Inst) time.Duration {
	s := w.ch.S("w/" + i.Owner + "/gone")
	return time.Duration(s.Pick(3, 2, 2, 1)) * w.cfg.ScanInterval / 2
}

func (w *World) onASGChanged(g *ASG) {}

func (w *World) onInstanceTerminated(i *Inst) {
	if gw := w.groupByName(i.Owner); gw != nil {
		gw.instanceTerminated(i)
	}
}

func (w *World) onInstanceInService(i *Inst) {
	if gw := w.groupByName(i.Owner); gw != nil {
		gw.scheduleRegistration(i)
	}
}

func (w *World) newInstance(gw *GroupWorld, asg string, fleet bool) *Inst {
	return gw.newInstance(asg, fleet)
}

func (w *World) onNodeDeleted(name string, byEscalator bool) {
	// pods bound to a deleted node are gone (evicted / garbage collected)
	for _, pn := range w.kube.sortedPodNames() {
		if w.kube.pods[pn].Spec.NodeName == name {
			w.kube.deletePod(pn)
		}
	}
}
