package harness

// Supervisor: controller lifetimes (start-up through the real decode ->
// validate -> NewController path, crash, restart), scans at drawn instants,
// recording listers, gauges.

import (
	"fmt"
	"io"
	"math"
	"net/http"
	"os"
	"runtime/debug"
	"sort"
	"strings"
	"testing"
	"testing/synctest"
	"time"

	"github.com/atlassian/escalator/pkg/cloudprovider"
	awsprov "github.com/atlassian/escalator/pkg/cloudprovider/aws"
	"github.com/atlassian/escalator/pkg/controller"
	"github.com/atlassian/escalator/pkg/k8s"
	"github.com/atlassian/escalator/pkg/metrics"
	"github.com/prometheus/client_golang/prometheus"
	dto "github.com/prometheus/client_model/go"
	log "github.com/sirupsen/logrus"
	v1 "k8s.io/api/core/v1"
	"k8s.io/client-go/kubernetes"
	"k8s.io/client-go/rest"
)

func init() {
	log.SetOutput(io.Discard)
	log.SetLevel(log.PanicLevel)
	if os.Getenv("VERIF_LOGRUS") != "" {
		log.SetOutput(os.Stderr)
		log.SetLevel(log.DebugLevel)
	}
	log.StandardLogger().ExitFunc = func(code int) {
		if exitHook != nil {
			exitHook(code)
		}
		panic(exitSentinel{code})
	}
}

type RunSpec struct {
	Seed    uint64
	Prop    string
	Tier    string
	Replay  map[string][]uint32
	KeepLog bool
	MaxScans int                // 0 = horizon from the configuration
	Mutate  func(*RunCfg)        // directed overrides (sweeps, metamorphic variants)
	Salt    map[string]string    // group name -> stream salt (metamorphic variants)
	AllProps bool                // report violations of every property, not just Prop
	KeepScans bool
	RecordKeys bool
	Profile  string // generator profile to use (default: the property's own)
	onCfg    func(*RunCfg)
}

type RunResult struct {
	Seed       uint64
	Prop       string
	ConfigText string
	Violations []Violation
	LogHash    string
	Log        []string
	Streams    map[string][]uint32
	Rejected   bool
	RejectReasons []string
	Scans      int
	Lifetimes  int
	SimSeconds float64
	HarnessErr string
	Scanlog    []*ScanRecord
	Calm       bool
	Summary    string
	CallKeys   []string
}

type simBuilder struct {
	w    *World
	cfgs []cloudprovider.NodeGroupConfig
}

func (b *simBuilder) Build() (cloudprovider.CloudProvider, error) {
	cloud := awsprov.VerifNewCloudProvider(&asgAPI{a: b.w.aws}, &ec2API{a: b.w.aws})
	if err := cloud.RegisterNodeGroups(b.cfgs...); err != nil {
		return nil, err
	}
	return &recCloud{CloudProvider: cloud, w: b.w}, nil
}

// recCloud marks the one place where the cloudprovider interface says cached cloud state is
// renewed: Refresh. Whenever the code under test calls it (at the top of a scan today, but it is free
// to call it again before a later group), the describe answers served inside it feed the known-ASG
// model and are journalled as scan-level calls, not as calls of the group whose turn came before.
type recCloud struct {
	cloudprovider.CloudProvider
	w *World
}

func (r *recCloud) GetNodeGroup(id string) (cloudprovider.NodeGroup, bool) {
	ng, ok := r.CloudProvider.GetNodeGroup(id)
	if !ok || ng == nil {
		return ng, ok
	}
	return &recNodeGroup{NodeGroup: ng, w: r.w}, true
}

func (r *recCloud) NodeGroups() []cloudprovider.NodeGroup {
	in := r.CloudProvider.NodeGroups()
	out := make([]cloudprovider.NodeGroup, len(in))
	for i, ng := range in {
		out[i] = &recNodeGroup{NodeGroup: ng, w: r.w}
	}
	return out
}

// recNodeGroup notes where a removal or scale-up request on the provider begins and ends.
type recNodeGroup struct {
	cloudprovider.NodeGroup
	w *World
}

func (n *recNodeGroup) begin(req *ProvReq) {
	req.Seq0 = n.w.seq
	if asg := n.w.asgOfCtx(); asg != "" {
		req.Known = n.w.known[asg].clone()
	}
	if n.w.gscan != nil {
		n.w.gscan.Reqs = append(n.w.gscan.Reqs, req)
	}
}

func (n *recNodeGroup) end(req *ProvReq, err error) {
	req.Seq1, req.Done = n.w.seq, true
	if err != nil {
		req.Err = err.Error()
		if ne := asNotInGroup(err); ne != nil {
			req.NotInGroup = ne.NodeName
		}
	}
}

func (n *recNodeGroup) DeleteNodes(nodes ...*v1.Node) error {
	req := &ProvReq{Kind: "delete"}
	for _, x := range nodes {
		req.Nodes = append(req.Nodes, x.Name)
	}
	n.begin(req)
	err := n.NodeGroup.DeleteNodes(nodes...)
	n.end(req, err)
	return err
}

func (n *recNodeGroup) IncreaseSize(delta int64) error {
	req := &ProvReq{Kind: "increase", Delta: delta}
	n.begin(req)
	err := n.NodeGroup.IncreaseSize(delta)
	n.end(req, err)
	return err
}

func (r *recCloud) Refresh() error {
	prev := r.w.ctx
	r.w.ctx = ""
	defer func() { r.w.ctx = prev }()
	return r.CloudProvider.Refresh()
}

// recording listers: hand the controller exactly what the (real) filtered
// lister returned and remember it as the cluster view of that scan.
type recPods struct {
	sup   *Supervisor
	g     string
	idx   int
	inner k8s.PodLister
}
type recNodes struct {
	sup   *Supervisor
	g     string
	idx   int
	inner k8s.NodeLister
}

// enter marks the start of a group's turn in the scan. Whichever of the group's two
// listers is called first starts it (the code under test is free to list nodes
// before pods); the second call of the same turn only adds its half of the view.
func (s *Supervisor) enter(g string, idx int) *GroupScan {
	w := s.w
	if w.scan == nil || idx >= len(w.scan.Groups) {
		w.ctx = g
		return nil
	}
	gs := w.scan.Groups[idx]
	if w.gscan != gs || w.ctx != g {
		if w.gscan != nil && w.gscan != gs {
			w.gscan.TLeave = time.Now()
		}
		w.catchUp()
		w.flushDescribeLines()
		w.ctx = g
		gs.Reached = true
		if gs.TEnter.IsZero() {
			gs.TEnter = time.Now()
		}
		w.gscan = gs
		s.effectiveBounds(gs)
	}
	return gs
}

func (r *recPods) List() ([]*v1.Pod, error) {
	w := r.sup.w
	gs := r.sup.enter(r.g, r.idx)
	pods, err := r.inner.List()
	if gs != nil && gs.PodsListed {
		// a second listing in the same turn: the view of the scan stays the first one (what the decision was
		// most plausibly taken on); if the cache has moved in between, which of the two the code used is not
		// knowable and the exact-outcome rules stand back
		if !samePodView(gs.Pods, pods, w) {
			gs.ViewMoved = true
		}
		w.logf("list g=%s pods again n=%d err=%v", r.g, len(pods), err != nil)
		return pods, err
	}
	if gs != nil {
		gs.PodsListed = true
		gs.PodsErr = err != nil
		// the recorded view is what the watch delivered (pristine), not the shared objects the controller holds
		gs.Pods = make([]*v1.Pod, 0, len(pods))
		for _, p := range pods {
			if pp := w.kube.pristinePod(p); pp != nil {
				gs.Pods = append(gs.Pods, pp)
			} else {
				gs.Pods = append(gs.Pods, p.DeepCopy())
			}
		}
	}
	if gs != nil {
		// nodes on which the API server holds a bound pod the cache has not seen yet (or sees differently): a code
		// that asks the server before it removes a node may find such a node busy although the view shows it idle
		seen := map[string]string{}
		for _, p := range gs.AllPods {
			seen[string(p.UID)] = p.Spec.NodeName
		}
		for _, p := range w.kube.pods {
			if p.Spec.NodeName == "" {
				continue
			}
			if on, ok := seen[string(p.UID)]; !ok || on != p.Spec.NodeName {
				if gs.StaleNodes == nil {
					gs.StaleNodes = map[string]bool{}
				}
				gs.StalePodNodes = append(gs.StalePodNodes, p.Spec.NodeName)
			}
		}
	}
	w.logf("list g=%s pods n=%d err=%v", r.g, len(pods), err != nil)
	return pods, err
}

func (r *recNodes) List() ([]*v1.Node, error) {
	w := r.sup.w
	gs := r.sup.enter(r.g, r.idx)
	nodes, err := r.inner.List()
	if gs != nil && gs.NodesListed {
		if !sameNodeView(gs.Nodes, nodes, w) {
			gs.ViewMoved = true
		}
		w.logf("list g=%s nodes again n=%d err=%v", r.g, len(nodes), err != nil)
		return nodes, err
	}
	if gs != nil {
		gs.NodesErr = err != nil
		gs.NodesListed = true
		gs.Nodes = make([]*v1.Node, 0, len(nodes))
		for _, n := range nodes {
			if pn := w.kube.pristineNode(n); pn != nil {
				gs.Nodes = append(gs.Nodes, pn)
			} else {
				gs.Nodes = append(gs.Nodes, n.DeepCopy())
			}
		}
		gs.TList = time.Now()
		// which nodes of the view lag behind the API server (a code that looks again before it acts sees the newer state)
		gs.StaleNodes = map[string]bool{}
		for _, n := range gs.Nodes {
			if st := w.kube.nodes[n.Name]; st == nil || st.ResourceVersion != n.ResourceVersion {
				gs.StaleNodes[n.Name] = true
			}
		}
	}
	w.logf("list g=%s nodes n=%d err=%v", r.g, len(nodes), err != nil)
	return nodes, err
}

type failureNote struct {
	scan, life int
	what       string
}

type Supervisor struct {
	w     *World
	spec  RunSpec
	cfg   *RunCfg
	stats *Stats
	res   *RunResult
	text  string

	ctrl  *controller.Controller
	ngs   []controller.NodeGroupOptions
	life  int
	scans int
	lifeScans int
	mem   map[string]*sizeMemory // node-size memory per group, per lifetime
	lock  map[string]*lockModel
	stopped bool
	everTainted map[string]bool
	lastFailure map[string]failureNote
	fleetFailures map[string]int
}

func (s *Supervisor) groupCfg(name string) *GroupCfg {
	for _, g := range s.cfg.Groups {
		if g.Name == name {
			return g
		}
	}
	return nil
}

// effectiveBounds fixes min/max as escalator is in a position to know them in
// this scan: the configured values, or with auto-discovery the known ASG's.
func (s *Supervisor) effectiveBounds(gs *GroupScan) {
	g := s.groupCfg(gs.Group)
	gs.MinEff, gs.MaxEff = g.Min, g.Max
	if g.Min == 0 && g.Max == 0 {
		if k := s.w.known[g.ASG]; k != nil {
			gs.MinEff, gs.MaxEff = int(k.Min), int(k.Max)
		}
	}
	gs.Dry = g.Dry || s.cfg.GlobalDry
	gs.KnownAtList = s.w.known[g.ASG].clone()
	if k := s.w.known[g.ASG]; k != nil && k.Ambiguous {
		gs.KnownAmbiguous = true
	}
	if k := s.w.known[g.ASG]; k != nil && k.AmbiguousMembers {
		gs.MembersAmbiguous = true
	}
}

var gaugeVecs = map[string]*prometheus.GaugeVec{
	"nodes": metrics.NodeGroupNodes, "cordoned": metrics.NodeGroupNodesCordoned, "untainted": metrics.NodeGroupNodesUntainted,
	"tainted": metrics.NodeGroupNodesTainted, "force_tainted": metrics.NodeGroupNodesForceTainted, "pods": metrics.NodeGroupPods,
	"cpu_request": metrics.NodeGroupCPURequest, "mem_request": metrics.NodeGroupMemRequest,
	"cpu_capacity": metrics.NodeGroupCPUCapacity, "mem_capacity": metrics.NodeGroupMemCapacity,
	"cpu_percent": metrics.NodeGroupsCPUPercent, "mem_percent": metrics.NodeGroupsMemPercent,
	"scale_delta": metrics.NodeGroupScaleDelta,
}

func gaugeNames() []string {
	out := make([]string, 0, len(gaugeVecs))
	for k := range gaugeVecs {
		out = append(out, k)
	}
	sort.Strings(out)
	return out
}

func resetGauges(group string) {
	for _, gv := range gaugeVecs {
		gv.WithLabelValues(group).Set(math.NaN())
	}
}

func readGauges(group string) map[string]float64 {
	out := map[string]float64{}
	for name, gv := range gaugeVecs {
		var m dto.Metric
		if err := gv.WithLabelValues(group).Write(&m); err == nil {
			out[name] = m.GetGauge().GetValue()
		}
	}
	return out
}

// startController runs the start-up path of cmd/main.go. It returns false if
// the lifetime could not start.
func (s *Supervisor) startController() (ok bool, rejected bool) {
	w := s.w
	w.life = s.life
	w.ctx, w.gscan, w.scan = "", nil, nil
	w.known = map[string]*KnownASG{}
	w.lastGet = map[string]*v1.Node{}
	s.mem = map[string]*sizeMemory{}
	s.lock = map[string]*lockModel{}
	s.lastFailure = map[string]failureNote{}
	s.fleetFailures = map[string]int{}
	s.lifeScans = 0
	ngs, provCfgs, problems, err := LoadOptions(s.text)
	if err != nil || len(problems) > 0 {
		if err != nil {
			problems = append(problems, "decode: "+err.Error())
		}
		s.res.Rejected = true
		s.res.RejectReasons = problems
		return false, true
	}
	if len(ngs) != len(s.cfg.Groups) {
		s.res.HarnessErr = "decoded group count differs from drawn configuration"
		return false, true
	}
	s.ngs = ngs
	stop := make(chan struct{})
	rc := &rest.Config{Host: "http://sim-apiserver", ContentConfig: rest.ContentConfig{ContentType: "application/json"}, QPS: -1}
	if s.cfg.QPS {
		rc.QPS, rc.Burst = 5, 10
	}
	client, err := kubernetes.NewForConfigAndClient(rc, &http.Client{Transport: w.kube})
	if err != nil {
		s.res.HarnessErr = "client: " + err.Error()
		return false, true
	}
	opts := controller.Opts{K8SClient: client, NodeGroups: ngs, CloudProviderBuilder: &simBuilder{w: w, cfgs: provCfgs}, ScanInterval: s.cfg.ScanInterval, DryMode: s.cfg.GlobalDry}
	w.startup = true
	w.logf("lifetime %d start", s.life)
	var ctrl *controller.Controller
	out := s.guard(func() error {
		var e error
		ctrl, e = controller.NewController(opts, stop)
		return e
	})
	w.startup = false
	w.flushDescribeLines()
	defer func() {
		close(stop)
		synctest.Wait()
	}()
	if out.Panic != "" {
		s.violate(Violation{Property: "C20", Rule: "c20-panic", Sub: "startup", Site: panicSite(out.Stack), Scan: s.scans, Life: s.life, Detail: "NewController panicked: " + out.Panic, Excerpt: stackExcerpt(out.Stack)})
		return false, false
	}
	if out.Err != "" || out.Exit || out.Crash {
		s.stats.StartFailures++
		w.logf("lifetime %d failed to start: %s", s.life, out.Err)
		return false, false
	}
	s.ctrl = ctrl
	// wiring cross-check + lister swap
	w.kube.syncAllCaches()
	w.noFaults = true
	for i := range ngs {
		name := ngs[i].Name
		real := ctrl.Client.Listers[name]
		if real == nil {
			s.violate(Violation{Property: "C12", Rule: "c12-wiring", Scan: s.scans, Life: s.life, Group: name, Detail: "no lister registered for group"})
			continue
		}
		var sim *controller.NodeGroupLister
		if name == controller.DefaultNodeGroup {
			sim = controller.NewDefaultNodeGroupLister(&simPodLister{w.kube}, &simNodeLister{w.kube}, ngs[i])
		} else {
			sim = controller.NewNodeGroupLister(&simPodLister{w.kube}, &simNodeLister{w.kube}, ngs[i])
		}
		w.ctx = name
		rp, e1 := real.Pods.List()
		rn, e2 := real.Nodes.List()
		sp, e3 := sim.Pods.List()
		sn, e4 := sim.Nodes.List()
		w.ctx = ""
		if e1 != nil || e2 != nil || e3 != nil || e4 != nil {
			s.res.HarnessErr = fmt.Sprintf("wiring cross-check list error: %v %v %v %v", e1, e2, e3, e4)
		}
		if d := diffNames(podNames(rp), podNames(sp)); d != "" {
			s.violate(Violation{Property: "C12", Rule: "c12-wiring", Sub: "pods", Scan: s.scans, Life: s.life, Group: name, Detail: "informer-backed pod lister and the group's documented filter disagree at start-up: " + d})
		}
		if d := diffNames(nodeNames(rn), nodeNames(sn)); d != "" {
			s.violate(Violation{Property: "C12", Rule: "c12-wiring", Sub: "nodes", Scan: s.scans, Life: s.life, Group: name, Detail: "informer-backed node lister and the group's documented filter disagree at start-up: " + d})
		}
		real.Pods = &recPods{sup: s, g: name, idx: i, inner: sim.Pods}
		real.Nodes = &recNodes{sup: s, g: name, idx: i, inner: sim.Nodes}
	}
	w.noFaults = false
	s.stats.Lifetimes++
	return true, false
}

func podNames(ps []*v1.Pod) []string {
	out := make([]string, 0, len(ps))
	for _, p := range ps {
		out = append(out, p.Name)
	}
	sort.Strings(out)
	return out
}

func nodeNames(ns []*v1.Node) []string {
	out := make([]string, 0, len(ns))
	for _, n := range ns {
		out = append(out, n.Name)
	}
	sort.Strings(out)
	return out
}

func diffNames(a, b []string) string {
	am, bm := map[string]bool{}, map[string]bool{}
	for _, x := range a {
		am[x] = true
	}
	for _, x := range b {
		bm[x] = true
	}
	var onlyA, onlyB []string
	for _, x := range a {
		if !bm[x] {
			onlyA = append(onlyA, x)
		}
	}
	for _, x := range b {
		if !am[x] {
			onlyB = append(onlyB, x)
		}
	}
	if len(onlyA) == 0 && len(onlyB) == 0 {
		return ""
	}
	return fmt.Sprintf("only-first=%v only-second=%v", onlyA, onlyB)
}

// guard runs f and classifies how it ended. f runs in a goroutine of its own so that a simulated kill (and the
// process's own exit) can end it with runtime.Goexit, which no recover() in the code under test can swallow.
func (s *Supervisor) guard(f func() error) (out Outcome) {
	w := s.w
	w.dead, w.goexit = nil, true
	exitHook = func(code int) { w.die(deathNote{code: code}) }
	done := make(chan struct{})
	go func() {
		defer close(done)
		defer func() {
			if r := recover(); r != nil {
				out.Panic = fmt.Sprint(r)
				out.Stack = string(debug.Stack())
				if m := unimplementedSDK(out.Stack); m != "" {
					s.res.HarnessErr = "the code under test called " + m + ", which the simulated AWS does not implement"
				}
			}
		}()
		if err := f(); err != nil {
			out.Err = err.Error()
			out.ErrType = fmt.Sprintf("%T", err)
			if ne := asNotInGroup(err); ne != nil {
				out.NotInGroupNode = ne.NodeName
			}
		}
	}()
	<-done
	exitHook = nil
	w.goexit = false
	if d := w.dead; d != nil {
		w.dead = nil
		out = Outcome{}
		if d.crash {
			out.Crash = true
			s.stats.Crashes++
			w.logf("crash at %s", d.at)
		} else {
			out.Exit = true
			s.stats.Exits++
			w.logf("exit(%d)", d.code)
		}
	}
	return out
}

// exitHook is what logrus' Fatal ends in while the controller supervisor is running the code under test.
var exitHook func(code int)

func panicSite(stack string) string {
	// first frame inside the escalator module below the panic
	lines := strings.Split(stack, "\n")
	for i, l := range lines {
		if strings.HasPrefix(l, "github.com/atlassian/escalator/") && i+1 < len(lines) {
			fn := l
			if k := strings.Index(fn, "("); k > 0 {
				fn = fn[:k]
			}
			fn = strings.TrimPrefix(fn, "github.com/atlassian/escalator/")
			return fn
		}
	}
	return "unknown"
}

func stackExcerpt(stack string) []string {
	var out []string
	for _, l := range strings.Split(stack, "\n") {
		if strings.Contains(l, "atlassian/escalator") {
			out = append(out, strings.TrimSpace(l))
		}
		if len(out) >= 12 {
			break
		}
	}
	return out
}

func (s *Supervisor) violate(v Violation) {
	if !s.spec.AllProps && !allPropsEnv && v.Property != s.spec.Prop {
		s.stats.Probe("other-property-violation:" + v.Property + "/" + v.Rule)
		return
	}
	s.res.Violations = append(s.res.Violations, v)
}

func (s *Supervisor) runScan() *ScanRecord {
	w := s.w
	w.catchUp()
	rec := &ScanRecord{Life: s.life, Index: s.scans, InLife: s.lifeScans, Start: time.Now(), Calm: s.cfg.Calm}
	for i, g := range s.cfg.Groups {
		rec.Groups = append(rec.Groups, &GroupScan{Group: g.Name, Idx: i})
		resetGauges(g.Name)
	}
	w.scan, w.gscan, w.ctx = rec, nil, ""
	w.logf("scan %d life %d t=%s", rec.Index, rec.Life, rec.Start.UTC().Format("15:04:05.000"))
	rec.Outcome = s.guard(func() error { return s.ctrl.RunOnce() })
	w.flushDescribeLines()
	rec.End = time.Now()
	for _, gs := range rec.Groups {
		if gs.Reached && (gs.TLeave.IsZero() || gs == w.gscan) {
			gs.TLeave = rec.End
		}
	}
	w.scan, w.gscan, w.ctx = nil, nil, ""
	for _, gs := range rec.Groups {
		if gs.Reached && gs.Gauges == nil {
			gs.Gauges = readGauges(gs.Group)
		}
	}
	if rec.Outcome.Err != "" || rec.Outcome.Panic != "" {
		w.logf("scan %d ended: err=%q panic=%q", rec.Index, rec.Outcome.Err, trunc(rec.Outcome.Panic, 80))
	}
	s.scans++
	s.lifeScans++
	s.stats.Scans++
	if rec.FaultsFired == 0 && !rec.Outcome.EndsLifetime() {
		s.stats.CleanScans++
	}
	if s.cfg.Calm {
		s.stats.CalmScans++
	} else {
		s.stats.FaultyScans++
	}
	return rec
}

// reconfigure models an operator editing the node-group file before a restart.
func (s *Supervisor) reconfigure() {
	st := s.w.ch.S(fmt.Sprintf("recfg/%d", s.life))
	if !st.Chance(s.cfg.ReconfigureP) {
		return
	}
	g := s.cfg.Groups[st.Intn(len(s.cfg.Groups))]
	switch st.Pick(4, 2, 2, 2, 1) {
	case 0:
		g.Dry = !g.Dry
		if g.Dry {
			s.stats.Probe("dry-switched-on-at-restart")
		}
	case 1:
		s.cfg.GlobalDry = !s.cfg.GlobalDry
	case 2:
		if !(g.Min == 0 && g.Max == 0) {
			if st.Chance(0.5) && g.Min > 0 {
				g.Min--
			} else if g.Min+1 < g.Max {
				g.Min++
			}
		}
	case 3:
		if g.Slow >= 0 {
			g.Fast = g.Slow + st.Intn(4)
		}
	case 4:
		g.Starve = !g.Starve
	}
	s.text = s.cfg.ConfigText()
	s.w.logf("reconfigured before lifetime %d", s.life)
}

// RunOne executes one simulated run inside one synctest bubble.
func RunOne(t *testing.T, spec RunSpec, stats *Stats) (res *RunResult) {
	res = &RunResult{Seed: spec.Seed, Prop: spec.Prop}
	defer func() {
		if r := recover(); r != nil {
			msg := fmt.Sprint(r)
			if strings.Contains(msg, "main bubble goroutine has exited") {
				// every scan returned and the run is complete; what is left are background goroutines of the code
				// under test parked on a channel (an event broadcaster, say). That is not a scan that hangs.
				stats.Probe("goroutines of the code under test still parked when the run ended")
				return
			}
			if strings.Contains(msg, "deadlock") && (spec.AllProps || spec.Prop == "C20") {
				res.Violations = append(res.Violations, Violation{Property: "C20", Rule: "c20-wedge", Site: "bubble-deadlock", Scan: res.Scans, Detail: "all goroutines durably blocked: " + msg})
				return
			}
			res.HarnessErr = "panic outside the scan guard: " + msg + "\n" + string(debug.Stack())
		}
	}()
	synctest.Test(t, func(t *testing.T) {
		defer func() {
			if r := recover(); r != nil {
				res.HarnessErr = "panic outside the scan guard: " + fmt.Sprint(r) + "\n" + string(debug.Stack())
			}
		}()
		runInBubble(spec, stats, res)
	})
	return res
}

func runInBubble(spec RunSpec, stats *Stats, res *RunResult) {
	ch := NewChoices(spec.Seed, spec.Replay)
	prof := profileFor(spec.Prop)
	if spec.Profile != "" {
		prof = profileFor(spec.Profile)
	}
	cfg := DrawConfig(ch, prof, spec.Tier)
	if spec.Mutate != nil {
		spec.Mutate(cfg)
	}
	if spec.MaxScans > 0 && spec.MaxScans < cfg.Horizon {
		cfg.Horizon = spec.MaxScans
	}
	w := newWorld(ch, cfg, prof, stats, spec.KeepLog)
	for _, g := range w.groups {
		g.salt = spec.Salt[g.name] + cfg.saltHook[g.name]
	}
	w.recordKeys = spec.RecordKeys
	s := &Supervisor{w: w, spec: spec, cfg: cfg, stats: stats, res: res}
	s.text = cfg.ConfigText()
	res.ConfigText = s.text
	res.Calm = cfg.Calm
	start := time.Now()
	w.logf("config %s", strings.ReplaceAll(s.text, "\n", "\\n"))
	for _, g := range w.groups {
		g.bootstrap()
	}
	times := ch.S("scan-times")
	defer func() {
		res.Scans = s.scans
		res.Lifetimes = s.life
		res.SimSeconds = time.Since(start).Seconds()
		stats.SimSeconds += res.SimSeconds
		res.LogHash = w.LogHash()
		res.Log = w.logLines
		res.Streams = ch.Recorded()
		res.CallKeys = w.callKeys
		if len(w.kube.unmodelled) > 0 && res.HarnessErr == "" {
			res.HarnessErr = "the code under test used API requests the simulated API server does not model: " + strings.Join(w.kube.unmodelled, ", ")
		}
	}()
	for s.life = 0; s.life < cfg.MaxLives && s.scans < cfg.Horizon && len(res.Violations) == 0; s.life++ {
		if s.life > 0 {
			delay := time.Duration(times.Pick(3, 3, 2, 1)) * cfg.ScanInterval / 2
			time.Sleep(delay)
			s.reconfigure()
		}
		ok, rejected := s.startController()
		if rejected {
			if res.Rejected {
				stats.RejectedCfg++
			}
			return
		}
		if !ok {
			continue
		}
		next := time.Now()
		if !times.Chance(0.2) {
			// start on a whole second: taint stamps are whole seconds, so only then can a
			// later scan land exactly on a grace-period or cool-down expiry
			next = next.Truncate(time.Second).Add(time.Second)
		}
		for s.scans < cfg.Horizon && len(res.Violations) == 0 {
			if d := time.Until(next); d > 0 {
				time.Sleep(d)
			}
			rec := s.runScan()
			if spec.KeepScans {
				res.Scanlog = append(res.Scanlog, rec)
			}
			s.checkScan(rec)
			if rec.Outcome.EndsLifetime() {
				break
			}
			if s.life+1 < cfg.MaxLives && times.Chance(cfg.BoundaryCrashP) {
				w.logf("crash at scan boundary")
				stats.Crashes++
				stats.Fault("crash-boundary")
				break
			}
			switch times.Pick(10, 1, 1, 1) {
			case 0:
				next = rec.Start.Add(cfg.ScanInterval)
			case 1: // late
				next = rec.Start.Add(cfg.ScanInterval * time.Duration(2+times.Intn(3)))
				stats.Fault("scan-late")
			case 2: // back to back
				next = time.Now()
				stats.Fault("scan-back-to-back")
			case 3: // jitter
				next = rec.Start.Add(cfg.ScanInterval + time.Duration(times.Intn(2000))*time.Millisecond)
				stats.Fault("scan-jitter")
			}
		}
		s.ctrl = nil
	}
}


// asNotInGroup finds the not-in-group error anywhere in err's chain (errors.Unwrap or pkg/errors' Cause):
// how the code wraps it on the way up is its own business.
func asNotInGroup(err error) *cloudprovider.NodeNotInNodeGroup {
	for i := 0; err != nil && i < 32; i++ {
		if ne, ok := err.(*cloudprovider.NodeNotInNodeGroup); ok {
			return ne
		}
		switch e := err.(type) {
		case interface{ Unwrap() error }:
			err = e.Unwrap()
		case interface{ Cause() error }:
			err = e.Cause()
		default:
			return nil
		}
	}
	return nil
}


// allPropsEnv (VERIF_ALLPROPS=1): every oracle reports, whatever property the check was started for. Used
// only by the sensitivity tooling (benign-change runs), never by a registered check.
var allPropsEnv = os.Getenv("VERIF_ALLPROPS") == "1"


func sameNodeView(first []*v1.Node, again []*v1.Node, w *World) bool {
	if len(first) != len(again) {
		return false
	}
	seen := map[string]string{}
	for _, n := range first {
		seen[n.Name] = n.ResourceVersion
	}
	for _, n := range again {
		rv := n.ResourceVersion
		if pn := w.kube.pristineNode(n); pn != nil {
			rv = pn.ResourceVersion
		}
		if v, ok := seen[n.Name]; !ok || v != rv {
			return false
		}
	}
	return true
}

func samePodView(first []*v1.Pod, again []*v1.Pod, w *World) bool {
	if len(first) != len(again) {
		return false
	}
	seen := map[string]int{}
	for _, p := range first {
		seen[string(p.UID)+"/"+p.ResourceVersion]++
	}
	for _, p := range again {
		q := p
		if pp := w.kube.pristinePod(p); pp != nil {
			q = pp
		}
		k := string(q.UID) + "/" + q.ResourceVersion
		if seen[k] == 0 {
			return false
		}
		seen[k]--
	}
	return true
}
