package harness

import (
	"encoding/json"
	"hash"
	"hash/fnv"
)

type seqHasher struct{ h hash.Hash64 }

func newHasher() *seqHasher { return &seqHasher{h: fnv.New64a()} }

// add folds the kind sequence of one group's calls and interleaved world
// actions into the per-scan interleaving hash.
func (s *seqHasher) add(gs *GroupScan) {
	s.h.Write([]byte(gs.Group))
	for _, c := range gs.Calls {
		s.h.Write([]byte(c.Op))
		s.h.Write([]byte(c.Fault))
		if c.Err != "" {
			s.h.Write([]byte{'!'})
		}
	}
	s.h.Write([]byte{byte(gs.WorldOps)})
}

func (s *seqHasher) sum() uint64 { return s.h.Sum64() }

func jsonOf(v interface{}) string {
	b, _ := json.Marshal(v)
	return string(b)
}
