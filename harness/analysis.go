package harness

// Reference models and per-scan analysis: everything here is recomputed from
// the recorded view and journal, never read from the controller.

import (
	"fmt"
	"hash/fnv"
	"math/big"
	"sort"
	"strconv"
	"strings"
	"time"

	v1 "k8s.io/api/core/v1"
)

// ---- exact arithmetic ----------------------------------------------------------

var suffixes = map[string]*big.Rat{}

func init() {
	p := func(base, exp int64) *big.Rat {
		r := new(big.Int).Exp(big.NewInt(base), big.NewInt(exp), nil)
		return new(big.Rat).SetInt(r)
	}
	suffixes[""] = big.NewRat(1, 1)
	suffixes["n"] = big.NewRat(1, 1000000000)
	suffixes["u"] = big.NewRat(1, 1000000)
	suffixes["m"] = big.NewRat(1, 1000)
	suffixes["k"] = p(10, 3)
	suffixes["M"] = p(10, 6)
	suffixes["G"] = p(10, 9)
	suffixes["T"] = p(10, 12)
	suffixes["P"] = p(10, 15)
	suffixes["E"] = p(10, 18)
	suffixes["Ki"] = p(2, 10)
	suffixes["Mi"] = p(2, 20)
	suffixes["Gi"] = p(2, 30)
	suffixes["Ti"] = p(2, 40)
	suffixes["Pi"] = p(2, 50)
	suffixes["Ei"] = p(2, 60)
}

// parseQuantity is the oracle's own parser of Kubernetes quantity strings.
func parseQuantity(s string) (*big.Rat, error) {
	s = strings.TrimSpace(s)
	if s == "" {
		return nil, fmt.Errorf("empty quantity")
	}
	i := 0
	if s[i] == '+' || s[i] == '-' {
		i++
	}
	for i < len(s) && (s[i] >= '0' && s[i] <= '9' || s[i] == '.') {
		i++
	}
	num, suf := s[:i], s[i:]
	r, ok := new(big.Rat).SetString(num)
	if !ok {
		return nil, fmt.Errorf("bad number %q", num)
	}
	if len(suf) > 0 && (suf[0] == 'e' || suf[0] == 'E') && len(suf) > 1 && (suf[1] == '+' || suf[1] == '-' || suf[1] >= '0' && suf[1] <= '9') {
		e, err := strconv.Atoi(suf[1:])
		if err != nil {
			return nil, err
		}
		ten := new(big.Rat).SetInt(new(big.Int).Exp(big.NewInt(10), big.NewInt(int64(abs(e))), nil))
		if e >= 0 {
			return r.Mul(r, ten), nil
		}
		return r.Quo(r, ten), nil
	}
	m, ok := suffixes[suf]
	if !ok {
		return nil, fmt.Errorf("bad suffix %q", suf)
	}
	return r.Mul(r, m), nil
}

func abs(x int) int {
	if x < 0 {
		return -x
	}
	return x
}

func ceilRat(r *big.Rat) *big.Int {
	q, m := new(big.Int).DivMod(r.Num(), r.Denom(), new(big.Int))
	if m.Sign() != 0 {
		q.Add(q, big.NewInt(1))
	}
	return q
}

// milliOf: the value in whole millicores, rounded up per quantity (the API's
// definition of MilliValue); bytesOf likewise for whole bytes.
func milliOf(q string) *big.Int {
	r, err := parseQuantity(q)
	if err != nil {
		return big.NewInt(0)
	}
	if roundDown {
		return floorRat(new(big.Rat).Mul(r, big.NewRat(1000, 1)))
	}
	return ceilRat(new(big.Rat).Mul(r, big.NewRat(1000, 1)))
}

func unitsOf(q string) *big.Int {
	r, err := parseQuantity(q)
	if err != nil {
		return big.NewInt(0)
	}
	if roundDown {
		return floorRat(r)
	}
	return ceilRat(r)
}

func floorRat(r *big.Rat) *big.Int {
	q, _ := new(big.Int).DivMod(r.Num(), r.Denom(), new(big.Int))
	return q
}

// roundDown selects, for the duration of one computation, the per-quantity floor instead of the ceiling. The
// property fixes the sums and their units, not where in the sum a sub-unit quantity ("100.5m") is rounded:
// every rounding scheme lands between the floor-sum and the ceiling-sum, and that interval is what is judged.
var roundDown bool

func resCPU(rl v1.ResourceList) *big.Int {
	if q, ok := rl[v1.ResourceCPU]; ok {
		return milliOf(q.String())
	}
	return big.NewInt(0)
}

func resMem(rl v1.ResourceList) *big.Int {
	if q, ok := rl[v1.ResourceMemory]; ok {
		return unitsOf(q.String())
	}
	return big.NewInt(0)
}

// podRequest: max(sum of containers, largest init container) + overhead.
func podRequest(p *v1.Pod) (cpu, mem *big.Int) {
	cpu, mem = big.NewInt(0), big.NewInt(0)
	for _, c := range p.Spec.Containers {
		cpu.Add(cpu, resCPU(c.Resources.Requests))
		mem.Add(mem, resMem(c.Resources.Requests))
	}
	for _, c := range p.Spec.InitContainers {
		if v := resCPU(c.Resources.Requests); v.Cmp(cpu) > 0 {
			cpu = v
		}
		if v := resMem(c.Resources.Requests); v.Cmp(mem) > 0 {
			mem = v
		}
	}
	if p.Spec.Overhead != nil {
		cpu = new(big.Int).Add(cpu, resCPU(p.Spec.Overhead))
		mem = new(big.Int).Add(mem, resMem(p.Spec.Overhead))
	}
	return
}

// ---- classification --------------------------------------------------------------

const (
	clCordoned  = "cordoned"
	clForce     = "force"
	clTainted   = "tainted"
	clUntainted = "untainted"
)

func classify(n *v1.Node) string {
	if n.Spec.Unschedulable {
		return clCordoned
	}
	if hasTaintKey(n, forceTaint) {
		return clForce
	}
	if hasTaintKey(n, escTaint) {
		return clTainted
	}
	return clUntainted
}

func escTaintOf(n *v1.Node) (v1.Taint, bool) {
	for _, t := range n.Spec.Taints {
		if t.Key == escTaint {
			return t, true
		}
	}
	return v1.Taint{}, false
}

// stampOf reads the recorded taint time: decimal int64 seconds representable
// as a time.Time; anything else "cannot be read".
func stampOf(n *v1.Node) (time.Time, bool) {
	t, ok := escTaintOf(n)
	if !ok {
		return time.Time{}, false
	}
	sec, err := strconv.ParseInt(t.Value, 10, 64)
	if err != nil {
		return time.Time{}, false
	}
	// time.Unix wraps outside roughly +-292e9 years; stamps whose absolute
	// second count cannot be held by time.Time are unreadable.
	const maxUnix = 1<<63 - 1 - 62135596800
	if sec > maxUnix || sec < -62135596800 {
		return time.Time{}, false
	}
	return time.Unix(sec, 0), true
}

func annotated(n *v1.Node) bool { return n.Annotations[noDelete] != "" }

// ---- attempts derived from the journal ---------------------------------------------

type attempt struct {
	Node     string
	Kind     string // "taint" | "untaint"
	GetOK    bool
	Present  bool // GET body carried the escalator taint
	Put      *Call
	PutOK    bool
	Success  bool // as escalator is told
	Get      *Call
	Noop     bool // no write: the GET showed the node already in the wanted state
}

// first is the call to show with a violation about this attempt
func (at *attempt) first() *Call {
	if at.Get != nil {
		return at.Get
	}
	return at.Put
}

type Analysis struct {
	Class     map[string]string
	Node      map[string]*v1.Node
	ByInst    map[string]string // instance id -> node name
	Cordoned, Force, Tainted, Untainted []*v1.Node
	PodsOn    map[string]int
	N, P, U   int
	ReqCPU, ReqMem, CapCPU, CapMem *big.Int
	UCPU, UMem, UMax *big.Rat
	ReqCPULo, ReqMemLo, CapCPULo, CapMemLo *big.Int // the same totals with every quantity rounded down
	ULo        *big.Rat // lowest utilisation any rounding scheme can arrive at (UMax is the highest)
	Fractional bool
	EqualSize bool
	SizeCPU, SizeMem *big.Int
	Kind      string
	Locked    bool
	LockKnown bool
	Bands     map[string]bool
	StarveMay, AgeMay bool
	AllAcked  bool
	Clean     bool
	CleanUp   bool
	CleanTaint bool
	Attempts  []*attempt
	TaintOK, UntaintOK int
	LockedStrict bool // locked whichever instant of [At, AtMax] the code armed at (Locked: locked for some such instant)
	NoopTaint, NoopUntaint bool // a node found already in the wanted state: whether it counts as done by this scan is the code's choice
	TaintPutOK int            // acknowledged taint writes only
	TaintAttempted, UntaintAttempted map[string]bool
	UntaintFailed map[string]bool // the read or the write of an untaint attempt on this node failed
	Increase  []*Call // acknowledged-or-not cloud increase calls (set-desired, create-fleet)
	Requested int64   // amount of capacity requested on top of known desired (acknowledged requests)
	ReqCalls  int
	Terminates, Deletes []*Call
	Writes    []*Call
	StateHash uint64
	KnownStart, KnownEnd *KnownASG
}

const (
	kListErr   = "list-error"
	kEmpty     = "empty"
	kOutBounds = "out-of-bounds"
	kBelowMin  = "below-min"
	kZeroCap   = "zero-capacity"
	kFromZero  = "from-zero"
	kIdleZero  = "idle-zero"
	kNormal    = "normal"
)

var tol = big.NewRat(1, 1000000000)

// nearOrEq: |a-b| <= tol*b
func near(a, b *big.Rat) bool {
	d := new(big.Rat).Sub(a, b)
	d.Abs(d)
	lim := new(big.Rat).Mul(tol, new(big.Rat).Abs(b))
	return d.Cmp(lim) <= 0
}

func analyse(gs *GroupScan, g *GroupCfg, rec *ScanRecord) *Analysis {
	a := &Analysis{Class: map[string]string{}, Node: map[string]*v1.Node{}, ByInst: map[string]string{}, PodsOn: map[string]int{}, Bands: map[string]bool{},
		TaintAttempted: map[string]bool{}, UntaintAttempted: map[string]bool{}, UntaintFailed: map[string]bool{}}
	a.ReqCPU, a.ReqMem, a.CapCPU, a.CapMem = big.NewInt(0), big.NewInt(0), big.NewInt(0), big.NewInt(0)
	if gs.PodsErr || gs.NodesErr || !gs.NodesListed {
		a.Kind = kListErr
	}
	for _, n := range gs.Nodes {
		c := classify(n)
		a.Class[n.Name] = c
		a.Node[n.Name] = n
		if id := instanceOf(n.Spec.ProviderID); id != "" {
			a.ByInst[id] = n.Name
		}
		switch c {
		case clCordoned:
			a.Cordoned = append(a.Cordoned, n)
		case clForce:
			a.Force = append(a.Force, n)
		case clTainted:
			a.Tainted = append(a.Tainted, n)
		default:
			a.Untainted = append(a.Untainted, n)
		}
	}
	a.N, a.P, a.U = len(gs.Nodes), len(gs.Pods), len(a.Untainted)
	for _, p := range gs.Pods {
		c, m := podRequest(p)
		a.ReqCPU.Add(a.ReqCPU, c)
		a.ReqMem.Add(a.ReqMem, m)
		if p.Spec.NodeName != "" {
			a.PodsOn[p.Spec.NodeName]++
		}
	}
	a.ReqCPULo, a.ReqMemLo, a.CapCPULo, a.CapMemLo = big.NewInt(0), big.NewInt(0), big.NewInt(0), big.NewInt(0)
	roundDown = true
	for _, p := range gs.Pods {
		c, m := podRequest(p)
		a.ReqCPULo.Add(a.ReqCPULo, c)
		a.ReqMemLo.Add(a.ReqMemLo, m)
	}
	for _, n := range a.Untainted {
		a.CapCPULo.Add(a.CapCPULo, resCPU(n.Status.Allocatable))
		a.CapMemLo.Add(a.CapMemLo, resMem(n.Status.Allocatable))
	}
	roundDown = false
	a.EqualSize = true
	for i, n := range a.Untainted {
		c, m := resCPU(n.Status.Allocatable), resMem(n.Status.Allocatable)
		a.CapCPU.Add(a.CapCPU, c)
		a.CapMem.Add(a.CapMem, m)
		if i == 0 {
			a.SizeCPU, a.SizeMem = c, m
		} else if c.Cmp(a.SizeCPU) != 0 || m.Cmp(a.SizeMem) != 0 {
			a.EqualSize = false
		}
	}
	a.Fractional = a.ReqCPULo.Cmp(a.ReqCPU) != 0 || a.ReqMemLo.Cmp(a.ReqMem) != 0 || a.CapCPULo.Cmp(a.CapCPU) != 0 || a.CapMemLo.Cmp(a.CapMem) != 0
	if a.Kind == "" {
		switch {
		case a.N == 0 && a.P == 0:
			a.Kind = kEmpty
		case a.N < gs.MinEff || a.N > gs.MaxEff:
			a.Kind = kOutBounds
		case a.U < gs.MinEff:
			a.Kind = kBelowMin
		case a.U == 0:
			if a.ReqCPU.Sign() == 0 && a.ReqMem.Sign() == 0 {
				a.Kind = kIdleZero
			} else {
				a.Kind = kFromZero
			}
		case a.CapCPU.Sign() == 0 || a.CapMem.Sign() == 0:
			a.Kind = kZeroCap
		default:
			a.Kind = kNormal
		}
	}
	if a.Kind == kNormal {
		a.UCPU = new(big.Rat).SetFrac(new(big.Int).Mul(a.ReqCPU, big.NewInt(100)), a.CapCPU)
		a.UMem = new(big.Rat).SetFrac(new(big.Int).Mul(a.ReqMem, big.NewInt(100)), a.CapMem)
		a.UMax = a.UCPU
		if a.UMem.Cmp(a.UCPU) > 0 {
			a.UMax = a.UMem
		}
		lo, up, th := big.NewRat(int64(g.Lower), 1), big.NewRat(int64(g.Upper), 1), big.NewRat(int64(g.ScaleUp), 1)
		u := a.UMax
		a.ULo = u
		if a.Fractional && a.CapCPU.Sign() > 0 && a.CapMem.Sign() > 0 {
			c := new(big.Rat).SetFrac(new(big.Int).Mul(a.ReqCPULo, big.NewInt(100)), a.CapCPU)
			m := new(big.Rat).SetFrac(new(big.Int).Mul(a.ReqMemLo, big.NewInt(100)), a.CapMem)
			a.ULo = c
			if m.Cmp(c) > 0 {
				a.ULo = m
			}
			if a.CapCPULo.Sign() > 0 && a.CapMemLo.Sign() > 0 {
				c = new(big.Rat).SetFrac(new(big.Int).Mul(a.ReqCPU, big.NewInt(100)), a.CapCPULo)
				m = new(big.Rat).SetFrac(new(big.Int).Mul(a.ReqMem, big.NewInt(100)), a.CapMemLo)
				u = c
				if m.Cmp(c) > 0 {
					u = m
				}
			}
		}
		ul := a.ULo
		// band membership with the float tolerance of DESIGN 4.3-4: on (or within 1e-9 of) a threshold both
		// neighbours are acceptable; with sub-unit quantities in the view every band the interval [ul, u]
		// of possible roundings touches is acceptable.
		if ul.Cmp(lo) < 0 || near(ul, lo) {
			a.Bands["fast"] = true
		}
		if (u.Cmp(lo) >= 0 || near(u, lo)) && (ul.Cmp(up) < 0 || near(ul, up)) {
			a.Bands["slow"] = true
		}
		if (u.Cmp(up) >= 0 || near(u, up)) && (ul.Cmp(th) <= 0 || near(ul, th)) {
			a.Bands["dead"] = true
		}
		if u.Cmp(th) > 0 || near(u, th) {
			a.Bands["up"] = true
		}
		// the two resources may sit on different sides of a threshold only
		// through max(); a near-tie between cpu and mem changes nothing.
	}
	if a.Kind == kFromZero {
		a.Bands["up"] = true
	}
	// documented triggers that may turn the decision into a scale-up
	// scale_on_starve is documented as firing "whenever there is a pod that cannot currently be scheduled due
	// to no node having capacity to run it". The permission is the widest reading of that sentence the view
	// supports: some Pending pod of the group fits (cpu and memory together) on no untainted node, with the
	// room on a node taken as its allocatable minus everything of the group that is bound to it. A pod that
	// does fit somewhere gives no permission, whichever node the code happens to look at.
	if g.Starve && a.U < gs.MaxEff {
		type room struct{ cpu, mem *big.Int }
		free := map[string]*room{}
		for _, n := range a.Untainted {
			free[n.Name] = &room{new(big.Int).Set(resCPU(n.Status.Allocatable)), new(big.Int).Set(resMem(n.Status.Allocatable))}
		}
		// everything rounded up: the least room and the largest pod any rounding gives - the permission must
		// not be narrower than a legitimate trigger
		for _, p := range gs.Pods {
			if r, ok := free[p.Spec.NodeName]; ok {
				c, m := podRequest(p)
				r.cpu.Sub(r.cpu, c)
				r.mem.Sub(r.mem, m)
			}
		}
		for _, p := range gs.Pods {
			if p.Status.Phase != v1.PodPending {
				continue
			}
			c, m := podRequest(p) // rounded up: the largest the pod can be taken to be
			fits := false
			for _, n := range a.Untainted {
				if free[n.Name].cpu.Cmp(c) >= 0 && free[n.Name].mem.Cmp(m) >= 0 {
					fits = true
				}
			}
			if !fits {
				a.StarveMay = true
			}
		}
	}
	if g.MaxNodeAge > 0 && a.U == gs.MinEff && a.U > 0 && len(a.Tainted) == 0 {
		for _, n := range a.Untainted {
			if rec.End.Sub(n.CreationTimestamp.Time) >= g.MaxNodeAge-time.Second {
				a.AgeMay = true
			}
		}
	}

	// journal
	a.AllAcked = true
	var cur *attempt
	for _, c := range gs.Calls {
		if c.Err != "" {
			a.AllAcked = false
		}
		if isMutating(c.Op) {
			a.Writes = append(a.Writes, c)
		}
		switch c.Op {
		case OpGet:
			kind := kindOfClass(a.Class[c.Target])
			if cur == nil || cur.Node != c.Target || cur.GetOK {
				cur = &attempt{Node: c.Target, Kind: kind}
				a.Attempts = append(a.Attempts, cur)
			}
			cur.Get = c
			cur.GetOK = c.Err == ""
			if cur.GetOK && c.GetBody != nil {
				cur.Present = hasTaintKey(c.GetBody, escTaint)
			}
			// lenient record ("was offered"): a read, even a failed one, may be the start of a write that was given up
			if kind == "taint" {
				a.TaintAttempted[c.Target] = true
			} else if kind == "untaint" {
				a.UntaintAttempted[c.Target] = true
			}
		case OpPut, OpPatch:
			if cur != nil && cur.Node == c.Target {
				cur.Put = c
				cur.PutOK = c.Err == ""
			} else {
				// a write prepared without a fresh read (from the cached object): what it is follows from the node's class
				kind := kindOfClass(a.Class[c.Target])
				if kind == "" {
					kind = "orphan-put"
				}
				cur = &attempt{Node: c.Target, Kind: kind, Put: c, PutOK: c.Err == "", GetOK: true, Present: kind == "untaint"}
				a.Attempts = append(a.Attempts, cur)
			}
			if cur.Kind == "taint" {
				a.TaintAttempted[c.Target] = true
			} else if cur.Kind == "untaint" {
				a.UntaintAttempted[c.Target] = true
			}
		case OpSetDesired, OpCreateFleet:
			a.Increase = append(a.Increase, c)
		case OpTerminateASG:
			a.Terminates = append(a.Terminates, c)
			if n, ok := a.ByInst[c.Target]; ok {
				c.Phase = ifs(a.Class[n] == clForce, "force", "grace")
			}
		case OpDelete:
			a.Deletes = append(a.Deletes, c)
			c.Phase = ifs(a.Class[c.Target] == clForce, "force", "grace")
		}
	}
	// A read is not an action. An attempt is kept only if a write was sent or if the read showed the node
	// already in the wanted state (which the code may report as done); a bare or failed GET stays behind
	// only in the lenient "was offered" sets above.
	kept := a.Attempts[:0]
	for _, at := range a.Attempts {
		if at.Kind == "untaint" && (!at.GetOK || at.Put != nil && !at.PutOK) {
			a.UntaintFailed[at.Node] = true
		}
		at.Noop = at.Put == nil && at.GetOK && (at.Kind == "taint" && at.Present || at.Kind == "untaint" && !at.Present)
		if at.Put == nil && !at.Noop {
			continue
		}
		kept = append(kept, at)
		// success is judged by effect: an acknowledged write that leaves the node in the wanted state
		wrote := at.PutOK
		if at.Put != nil && at.Put.NodeBody != nil {
			has := hasTaintKey(at.Put.NodeBody, escTaint)
			wrote = at.PutOK && has == (at.Kind == "taint")
			if st := at.Put.Stored; st != nil && hasTaintKey(st, escTaint) == has && has == (at.Kind == "taint") {
				at.Noop = true // the write found the node already in the wanted state and left it there
			}
		}
		switch at.Kind {
		case "taint":
			at.Success = wrote || at.Noop && at.Put == nil
			if at.Success {
				a.TaintOK++
			}
			if wrote && !at.Noop {
				a.TaintPutOK++
			}
			if at.Noop {
				a.NoopTaint = true
			}
		case "untaint":
			at.Success = wrote || at.Noop && at.Put == nil
			if at.Success {
				a.UntaintOK++
			}
			if at.Noop {
				a.NoopUntaint = true
			}
		}
	}
	a.Attempts = kept
	// requested capacity (acknowledged increases)
	for _, c := range a.Increase {
		switch c.Op {
		case OpSetDesired:
			a.ReqCalls++
			if c.Err == "" && c.Known != nil && c.Known.Valid {
				a.Requested += c.Desired - c.Known.Desired
			}
		case OpCreateFleet:
			a.ReqCalls++
			if c.Err == "" {
				a.Requested += int64(len(c.IDs))
			}
		}
	}
	preFaulted := false
	for _, c := range rec.Pre {
		if c.Fault != "" || c.Err != "" {
			preFaulted = true // a fault in the refresh path leaves every group with a possibly stale cloud view
		}
	}
	a.Clean = a.AllAcked && !gs.Faulted && !preFaulted && !rec.Outcome.EndsLifetime() && a.Kind != kListErr
	// CleanUp: enough for the scale-up arithmetic rules (C03 recovery, C04 clamp, C05, C07 remainder): the
	// need follows from the view alone, untaint failures are accounted for by the journal, so only the
	// refresh path, the lists, the increase calls themselves and the scan's completion must be fault-free.
	incAcked := true
	for _, c := range a.Increase {
		if c.Err != "" || c.Fault == FErrorsPlus {
			incAcked = false
		}
	}
	attachOK := true
	for _, c := range gs.Calls {
		if (c.Op == OpAttach || c.Op == OpStatus || c.Op == OpTerminateEC2 || c.Op == OpDescribeASG) && (c.Err != "" || c.Fault != "") {
			attachOK = false
		}
		if c.Op == OpCreateFleet && c.Fault != "" {
			attachOK = false
		}
	}
	// CleanTaint: enough for the taint-count rule (C06): the expected count follows from the view; faults in
	// the reap phase (terminate / delete calls) do not change it, failed taint writes do.
	taintPhaseOK := true
	for _, c := range gs.Calls {
		if (c.Op == OpGet || c.Op == OpPut || c.Op == OpPatch) && (c.Err != "" || c.Fault != "") {
			taintPhaseOK = false
		}
		if c.Op == OpSetDesired || c.Op == OpCreateFleet || c.Op == OpDescribeInst && c.Fault == FLatency {
			if c.Err != "" {
				taintPhaseOK = false
			}
		}
	}
	a.CleanTaint = !preFaulted && a.Kind != kListErr && !rec.Outcome.EndsLifetime() && taintPhaseOK && !a.NoopTaint
	a.CleanUp = !preFaulted && a.Kind != kListErr && !rec.Outcome.EndsLifetime() && incAcked && attachOK && !neverReadyInScan(gs) && !a.NoopUntaint
	a.StateHash = a.hash(gs, g)
	return a
}

// neverReadyInScan: a fleet request in this scan ended in TerminateInstances (readiness timeout).
func neverReadyInScan(gs *GroupScan) bool {
	for _, c := range gs.Calls {
		if c.Op == OpTerminateEC2 {
			return true
		}
	}
	return false
}

func instanceOf(providerID string) string {
	parts := strings.Split(providerID, "/")
	if len(parts) == 5 && parts[4] != "" {
		return parts[4]
	}
	return ""
}

// hash abstracts a group's scan into (class counts, kind, bands, lock, actions,
// fault kinds) for the "distinct states" coverage measure.
func (a *Analysis) hash(gs *GroupScan, g *GroupCfg) uint64 {
	h := fnv.New64a()
	bands := make([]string, 0, 4)
	for b := range a.Bands {
		bands = append(bands, b)
	}
	sort.Strings(bands)
	var ops []string
	for _, c := range gs.Calls {
		ops = append(ops, c.Op+ifs(c.Err != "", "!", "")+c.Fault)
	}
	fmt.Fprintf(h, "%d/%d/%d/%d/%d|%s|%v|%v|%v|%v|%v|%s|%d|%d", len(a.Cordoned), len(a.Force), len(a.Tainted), a.U, clampInt(a.P, 8), a.Kind, bands, a.Locked,
		a.StarveMay, a.AgeMay, gs.Dry, strings.Join(ops, ","), gs.MinEff, clampInt(gs.MaxEff, 6))
	return h.Sum64()
}

func clampInt(x, hi int) int {
	if x > hi {
		return hi
	}
	return x
}

// ---- lock and node-size models ------------------------------------------------------

type lockModel struct {
	Armed   bool
	At      time.Time // the cloud accepted the request
	AtMax   time.Time // the group's turn in that scan ended: the code armed its lock somewhere in [At, AtMax]
	Amount  int64
}

// sizeMemory: the node size of the last non-empty node view of this lifetime.
type sizeMemory struct {
	Seen   bool
	Mixed  bool
	CPU, Mem *big.Int
}

func (m *sizeMemory) observe(nodes []*v1.Node) {
	if len(nodes) == 0 {
		return
	}
	m.Seen, m.Mixed = true, false
	for i, n := range nodes {
		c, mem := resCPU(n.Status.Allocatable), resMem(n.Status.Allocatable)
		if i == 0 {
			m.CPU, m.Mem = c, mem
		} else if c.Cmp(m.CPU) != 0 || mem.Cmp(m.Mem) != 0 {
			m.Mixed = true
		}
	}
}


func kindOfClass(cls string) string {
	switch cls {
	case clUntainted:
		return "taint"
	case clTainted:
		return "untaint"
	}
	return ""
}
