package harness

// Worker-side driver: seeded search over runs within a wall budget, replay
// files, minimisation, and the per-worker report the check script aggregates.

import (
	"encoding/json"
	"fmt"
	"os"
	"sort"
	"strings"
	"testing"
	"time"
)

const HarnessVersion = 1

type ReplayFile struct {
	V        int                 `json:"v"`
	Property string              `json:"property"`
	Rule     string              `json:"rule"`
	Sub      string              `json:"sub,omitempty"`
	Site     string              `json:"site,omitempty"`
	Driver   string              `json:"driver"`
	RunSeed  uint64              `json:"run_seed"`
	Tier     string              `json:"tier"`
	Variant  string              `json:"variant,omitempty"`
	Profile  string              `json:"profile,omitempty"`
	MaxScans int                 `json:"horizon_scans"`
	Config   string              `json:"config_text"`
	Streams  map[string][]uint32 `json:"streams"`
	Force    map[string]string   `json:"force_fault,omitempty"`
	Generate bool                `json:"generate,omitempty"` // no recorded streams: re-generate the run from its seed
	Expect   struct {
		Scan    int    `json:"scan"`
		Life    int    `json:"life"`
		Group   string `json:"group"`
		LogHash string `json:"event_log_sha256"`
	} `json:"expect"`
	Report struct {
		Detail  string   `json:"detail"`
		Excerpt []string `json:"excerpt"`
		ShrinkSteps int  `json:"shrink_executions"`
		StreamValuesBefore int `json:"stream_values_before"`
		StreamValuesAfter  int `json:"stream_values_after"`
	} `json:"report"`
}

type WorkerReport struct {
	Property   string            `json:"property"`
	Tier       string            `json:"tier"`
	SeedLo     uint64            `json:"seed_lo"`
	SeedHi     uint64            `json:"seed_hi"`
	Runs       int               `json:"runs"`
	Rejected   int               `json:"rejected_configs"`
	Scans      int               `json:"scans"`
	CleanScans int               `json:"clean_scans"`
	CalmScans  int               `json:"calm_scans"`
	FaultyScans int              `json:"faulty_scans"`
	Lifetimes  int               `json:"lifetimes"`
	Crashes    int               `json:"crashes"`
	Exits      int               `json:"exits"`
	StartFailures int            `json:"start_failures"`
	SimSeconds float64           `json:"sim_seconds"`
	WallSeconds float64          `json:"wall_seconds"`
	Faults     map[string]int    `json:"faults"`
	World      map[string]int    `json:"world"`
	Probes     map[string]int    `json:"probes"`
	Calls      map[string]int    `json:"calls"`
	Shapes     map[string]int    `json:"shapes"`
	States     []uint64          `json:"states"`
	Inter      []uint64          `json:"interleavings"`
	Checked    map[string][]uint64 `json:"checked"`
	Violations []ReplayFile      `json:"violations"`
	HarnessErrors []string       `json:"harness_errors"`
	Samples    []json.RawMessage `json:"samples"`
	Extra      map[string]int    `json:"extra,omitempty"`
}

func setToSlice(m map[uint64]struct{}) []uint64 {
	out := make([]uint64, 0, len(m))
	for k := range m {
		out = append(out, k)
	}
	sort.Slice(out, func(i, j int) bool { return out[i] < out[j] })
	return out
}

func (r *WorkerReport) fill(st *Stats) {
	r.Scans, r.CleanScans, r.CalmScans, r.FaultyScans = st.Scans, st.CleanScans, st.CalmScans, st.FaultyScans
	r.Lifetimes, r.Crashes, r.Exits, r.StartFailures = st.Lifetimes, st.Crashes, st.Exits, st.StartFailures
	r.SimSeconds = st.SimSeconds
	r.Rejected = st.RejectedCfg
	r.Faults, r.World, r.Probes, r.Calls, r.Shapes = st.Faults, st.World, st.Probes, st.Calls, st.Shapes
	r.States, r.Inter = setToSlice(st.States), setToSlice(st.Inter)
	r.Checked = map[string][]uint64{}
	for k, m := range st.Checked {
		r.Checked[k] = setToSlice(m)
	}
}

func countValues(m map[string][]uint32) int {
	n := 0
	for _, v := range m {
		n += len(v)
	}
	return n
}

// sameViolation: the replay criterion — same property, rule, sub-rule and site.
func findSame(vs []Violation, want Violation) (Violation, bool) {
	for _, v := range vs {
		if v.Property == want.Property && v.Rule == want.Rule && v.Sub == want.Sub && v.Site == want.Site {
			return v, true
		}
	}
	return Violation{}, false
}

type runFn func(replay map[string][]uint32, maxScans int) *RunResult

// minimise shrinks the recorded choice streams (and the horizon) while the
// same property/rule/sub/site still fires. Any value sequence is a valid run.
func minimise(run runFn, streams map[string][]uint32, want Violation, maxExec int) (map[string][]uint32, int, Violation, int) {
	execs := 0
	cur := map[string][]uint32{}
	for k, v := range streams {
		cur[k] = append([]uint32(nil), v...)
	}
	best := want
	horizon := want.Scan + 1
	try := func(cand map[string][]uint32, h int) bool {
		if execs >= maxExec {
			return false
		}
		execs++
		res := run(cand, h)
		if res.HarnessErr != "" {
			return false
		}
		if v, ok := findSame(res.Violations, want); ok {
			best = v
			return true
		}
		return false
	}
	if !try(cur, horizon) {
		horizon = 0 // could not even reproduce with a cut horizon: keep the full one
		if !try(cur, 0) {
			return streams, 0, want, execs
		}
	}
	clone := func() map[string][]uint32 {
		c := map[string][]uint32{}
		for k, v := range cur {
			c[k] = append([]uint32(nil), v...)
		}
		return c
	}
	keys := func() []string {
		ks := make([]string, 0, len(cur))
		for k := range cur {
			ks = append(ks, k)
		}
		sort.Strings(ks)
		return ks
	}
	// pass 1: drop whole streams (world noise first, configuration last)
	for _, k := range keys() {
		if strings.HasPrefix(k, "cfg") {
			continue
		}
		c := clone()
		delete(c, k)
		if try(c, horizon) {
			cur = c
		}
	}
	// pass 2: per stream, truncate then zero blocks by halving
	for _, k := range keys() {
		vals := cur[k]
		start := len(vals) / 2
		if start < 1 {
			start = 1
		}
		for n := start; n >= 1 && execs < maxExec; n /= 2 {
			for lo := 0; lo+n <= len(cur[k]) && execs < maxExec; lo += n {
				allZero := true
				for _, v := range cur[k][lo : lo+n] {
					if v != 0 {
						allZero = false
					}
				}
				if allZero {
					continue
				}
				c := clone()
				for i := lo; i < lo+n; i++ {
					c[k][i] = 0
				}
				if try(c, horizon) {
					cur = c
				}
			}
		}
	}
	// pass 3: shorter horizon after simplification
	if best.Scan+1 < horizon || horizon == 0 {
		if try(cur, best.Scan+1) {
			horizon = best.Scan + 1
		}
	}
	// strip trailing zeros
	for k, v := range cur {
		last := -1
		for i, x := range v {
			if x != 0 {
				last = i
			}
		}
		if last < 0 {
			delete(cur, k)
		} else {
			cur[k] = v[:last+1]
		}
	}
	return cur, horizon, best, execs
}

var allProps = []string{"C01", "C02", "C03", "C04", "C05", "C06", "C07", "C08", "C09", "C10", "C11", "C12", "C13", "C15", "C17", "C18", "C19", "C20"}

type job struct {
	driver  string
	seed    uint64
	profile string
	variant string
	force   map[string]string
	run     func(replay map[string][]uint32, maxScans int, st *Stats) *RunResult
}

// jobsFor lists the runs one seed contributes for a property.
func jobsFor(t *testing.T, prop, tier string, seed uint64) []job {
	var js []job
	// thorough tier: a third of the runs borrow the generator profile of another property
	profile := ""
	if tier == "thorough" && seed%3 == 2 {
		profile = allProps[(seed/3)%uint64(len(allProps))]
	}
	ctl := job{driver: "controller", seed: seed, profile: profile}
	ctl.run = func(replay map[string][]uint32, maxScans int, st *Stats) *RunResult {
		if profile != "" {
			st.Probe("run with a borrowed profile")
		}
		return RunOne(t, RunSpec{Seed: seed, Prop: prop, Tier: tier, Replay: replay, MaxScans: maxScans, Profile: profile}, st)
	}
	js = append(js, ctl)
	switch prop {
	case "C07", "C17", "C18", "C19", "C20":
		for k := 0; k < 3; k++ {
			ps := seed*4 + uint64(k)
			pj := job{driver: "provider", seed: ps}
			pj.run = func(replay map[string][]uint32, maxOps int, st *Stats) *RunResult {
				return RunProvider(t, ProvSpec{Seed: ps, Prop: prop, Replay: replay, MaxOps: maxOps}, st)
			}
			js = append(js, pj)
		}
	case "C11":
		js = append(js, pairJob(t, prop, tier, seed, PairVariant{Kind: "dry", Group: int(seed % 3)}))
	case "C12":
		js = append(js, pairJob(t, prop, tier, seed, PairVariant{Kind: "world", Group: int(seed % 3)}))
		js = append(js, pairJob(t, prop, tier, seed, PairVariant{Kind: "faults", Group: int((seed / 3) % 3)}))
	}
	return js
}

func sweepCalm(c *RunCfg) {
	c.Calm, c.FaultP, c.LatencyP, c.CrashP, c.BoundaryCrashP = false, 0, 0, 0, 0
	if c.MaxLives < 2 {
		c.MaxLives = 2
	}
}

// sweepJobs: the single-fault sweep for one base seed — run it fault-free to
// enumerate its seam calls, then once per (call x applicable fault kind, crash
// before, crash after).
func sweepJobs(t *testing.T, prop, tier string, seed uint64, maxScans, maxJobs int) []job {
	calmify := sweepCalm
	base := RunOne(t, RunSpec{Seed: seed, Prop: prop, Tier: tier, MaxScans: maxScans, RecordKeys: true, Mutate: calmify}, newStats())
	if base.HarnessErr != "" || base.Rejected {
		return nil
	}
	var js []job
	for _, key := range base.CallKeys {
		slash, hash := strings.Index(key, "/"), strings.LastIndex(key, "#")
		op := key[slash+1 : hash]
		kinds := append([]string{}, faultsByOp[op]...)
		if strings.HasPrefix(op, OpDescribeInst) {
			op = OpDescribeInst
			kinds = append([]string{}, faultsByOp[op]...)
		} else {
			kinds = append(kinds, FCrashBefore)
		}
		if isMutating(op) {
			kinds = append(kinds, FCrashAfter)
		}
		for _, kind := range kinds {
			if kind == FLatency || kind == FThrottle {
				continue
			}
			key, kind := key, kind
			force := map[string]string{key: kind}
			j := job{driver: "controller", seed: seed, force: force, variant: "sweep"}
			j.run = func(replay map[string][]uint32, ms int, st *Stats) *RunResult {
				if ms == 0 || ms > maxScans {
					ms = maxScans
				}
				st.Probe("single-fault-sweep run")
				return RunOne(t, RunSpec{Seed: seed, Prop: prop, Tier: tier, Replay: replay, MaxScans: ms, Mutate: func(c *RunCfg) {
					calmify(c)
					c.ForceFault[key] = kind
				}}, st)
			}
			js = append(js, j)
		}
	}
	if len(js) > maxJobs {
		// spread evenly over the run
		step := float64(len(js)) / float64(maxJobs)
		var pick []job
		for i := 0; i < maxJobs; i++ {
			pick = append(pick, js[int(float64(i)*step)])
		}
		js = pick
	}
	return js
}

func pairJob(t *testing.T, prop, tier string, seed uint64, v PairVariant) job {
	vb, _ := json.Marshal(v)
	j := job{driver: "pair", seed: seed, variant: string(vb)}
	j.run = func(replay map[string][]uint32, maxScans int, st *Stats) *RunResult {
		return RunPair(t, RunSpec{Seed: seed, Prop: prop, Tier: tier, Replay: replay, MaxScans: maxScans}, v, st)
	}
	return j
}

// WorkerMain runs seeds lo..hi of one property within the wall budget.
func WorkerMain(t *testing.T, prop, tier string, lo, hi uint64, budget time.Duration, outPath string, maxViol int, extra []job) {
	start := time.Now()
	st := newStats()
	rep := &WorkerReport{Property: prop, Tier: tier, SeedLo: lo, SeedHi: hi, Extra: map[string]int{}}
	seenKeys := map[string]bool{}
	handle := func(j job) {
		// real-time watchdog: a run that burns wall time without finishing (a spin, or a loop of
		// virtual sleeps) is abandoned; the parent re-runs that seed once in a fresh process and
		// reports c20-wedge only if it hangs again.
		marker, _ := json.Marshal(ReplayFile{V: HarnessVersion, Property: prop, Rule: "c20-wedge", Site: "real-time-watchdog", Driver: j.driver, RunSeed: j.seed, Tier: tier, Variant: j.variant, Profile: j.profile, Force: j.force, Generate: true})
		wd := time.AfterFunc(90*time.Second, func() {
			os.WriteFile(outPath+".hang", marker, 0o644)
			os.Exit(4)
		})
		res := j.run(nil, 0, st)
		wd.Stop()
		rep.Runs++
		rep.Extra["runs:"+j.driver]++
		if res.HarnessErr != "" {
			if len(rep.HarnessErrors) < 5 {
				rep.HarnessErrors = append(rep.HarnessErrors, fmt.Sprintf("%s seed %d: %s", j.driver, j.seed, res.HarnessErr))
			}
			return
		}
		if len(rep.Samples) < 2 && j.driver == "controller" && res.Scans > 5 && len(res.Violations) == 0 && !res.Rejected {
			rep.Samples = append(rep.Samples, sampleOf(t, RunSpec{Seed: j.seed, Prop: prop, Tier: tier}))
		}
		for _, v := range res.Violations {
			if seenKeys[v.Key()] || len(rep.Violations) >= maxViol {
				continue
			}
			seenKeys[v.Key()] = true
			before := countValues(res.Streams)
			run := func(replay map[string][]uint32, maxScans int) *RunResult { return j.run(replay, maxScans, newStats()) }
			// One seed must be one execution. If the recorded run does not repeat itself exactly, something the
			// simulator does not own decides part of it - typically the code under test ranging over a Go map. A
			// violation found that way cannot be replayed, so it is not reported as one: the check ends as
			// machinery trouble (exit 2) and says why.
			repeats := true
			for i := 0; i < 2 && repeats; i++ {
				if again := run(res.Streams, 0); again.LogHash != res.LogHash {
					repeats = false
				}
			}
			if !repeats {
				rep.HarnessErrors = append(rep.HarnessErrors, fmt.Sprintf("seed %d (%s): the same seeded run does not repeat itself (event logs differ): the code under test, or the harness, is not deterministic; %s is not reported", j.seed, j.driver, v.Key()))
				continue
			}
			streams, horizon, best, execs := minimise(run, res.Streams, v, 300)
			rf := ReplayFile{V: HarnessVersion, Property: v.Property, Rule: v.Rule, Sub: v.Sub, Site: v.Site, Driver: j.driver, RunSeed: j.seed, Tier: tier, Variant: j.variant, Profile: j.profile, Force: j.force, MaxScans: horizon, Streams: streams}
			final := run(streams, horizon)
			if fv, ok := findSame(final.Violations, v); ok {
				best = fv
				rf.Expect.LogHash = final.LogHash
				rf.Config = final.ConfigText
			} else {
				rep.HarnessErrors = append(rep.HarnessErrors, fmt.Sprintf("seed %d: minimised replay lost the violation %s", j.seed, v.Key()))
				rf.Streams, rf.MaxScans = res.Streams, 0
				rf.Config = res.ConfigText
			}
			rf.Expect.Scan, rf.Expect.Life, rf.Expect.Group = best.Scan, best.Life, best.Group
			rf.Report.Detail, rf.Report.Excerpt = best.Detail, best.Excerpt
			rf.Report.ShrinkSteps, rf.Report.StreamValuesBefore, rf.Report.StreamValuesAfter = execs, before, countValues(rf.Streams)
			rep.Violations = append(rep.Violations, rf)
		}
	}
	for _, j := range extra {
		handle(j)
	}
	for seed := lo; seed <= hi; seed++ {
		if time.Since(start) > budget {
			break
		}
		rep.SeedHi = seed
		for _, j := range jobsFor(t, prop, tier, seed) {
			handle(j)
		}
		// single-fault sweep on a sample of base seeds
		every, ms, mj := uint64(40), 12, 120
		if tier == "thorough" {
			every, ms, mj = 12, 40, 1500
		}
		if (seed-lo)%every == 3 {
			for _, j := range sweepJobs(t, prop, tier, seed, ms, mj) {
				if time.Since(start) > budget {
					break
				}
				handle(j)
			}
			rep.Extra["sweep-base-seeds"]++
		}
	}
	rep.fill(st)
	rep.WallSeconds = time.Since(start).Seconds()
	writeJSON(outPath, rep)
}

func writeJSON(path string, v interface{}) {
	b, err := json.Marshal(v)
	if err != nil {
		panic(err)
	}
	if err := os.WriteFile(path, b, 0o644); err != nil {
		panic(err)
	}
}

// sampleOf re-runs a seed keeping the scan log and renders an abbreviated journal.
func sampleOf(t *testing.T, spec RunSpec) json.RawMessage {
	spec.KeepScans = true
	res := RunOne(t, spec, newStats())
	type gsum struct {
		Group string   `json:"group"`
		View  string   `json:"view"`
		Kind  string   `json:"kind"`
		Calls []string `json:"calls,omitempty"`
	}
	type ssum struct {
		Scan   int    `json:"scan"`
		Life   int    `json:"life"`
		T      string `json:"t"`
		Groups []gsum `json:"groups"`
		Ended  string `json:"ended,omitempty"`
	}
	out := struct {
		Seed   uint64 `json:"run_seed"`
		Config string `json:"config_text"`
		Scans  int    `json:"scans"`
		SimSeconds float64 `json:"sim_seconds"`
		Journal []ssum `json:"journal_excerpt"`
	}{Seed: spec.Seed, Config: res.ConfigText, Scans: res.Scans, SimSeconds: res.SimSeconds}
	shown := 0
	for _, rec := range res.Scanlog {
		busy := false
		for _, gs := range rec.Groups {
			if len(gs.Calls) > 0 {
				busy = true
			}
		}
		if !busy && rec.Index > 1 {
			continue
		}
		if shown >= 6 {
			break
		}
		shown++
		ss := ssum{Scan: rec.Index, Life: rec.Life, T: rec.Start.UTC().Format("15:04:05")}
		if rec.Outcome.EndsLifetime() {
			ss.Ended = fmt.Sprintf("err=%q crash=%v exit=%v", rec.Outcome.Err, rec.Outcome.Crash, rec.Outcome.Exit)
		}
		for _, gs := range rec.Groups {
			if !gs.Reached || gs.A == nil {
				continue
			}
			g := gsum{Group: gs.Group, Kind: gs.A.Kind, View: fmt.Sprintf("nodes=%d (untainted %d, tainted %d, force %d, cordoned %d) pods=%d locked=%v", gs.A.N, gs.A.U, len(gs.A.Tainted), len(gs.A.Force), len(gs.A.Cordoned), gs.A.P, gs.A.Locked)}
			for i, c := range gs.Calls {
				if i >= 12 {
					g.Calls = append(g.Calls, "...")
					break
				}
				g.Calls = append(g.Calls, c.Line())
			}
			ss.Groups = append(ss.Groups, g)
		}
		out.Journal = append(out.Journal, ss)
	}
	b, _ := json.Marshal(out)
	return b
}

// ReplayMain re-executes a replay file and reports whether the same violation
// (property, rule, sub, site) fired; with the same event-log hash when given.
func ReplayMain(t *testing.T, path string, verbose bool) (reproduced bool, msg string) {
	b, err := os.ReadFile(path)
	if err != nil {
		return false, err.Error()
	}
	var rf ReplayFile
	if err := json.Unmarshal(b, &rf); err != nil {
		return false, err.Error()
	}
	streams := rf.Streams
	if streams == nil && !rf.Generate {
		streams = map[string][]uint32{}
	}
	var res *RunResult
	switch rf.Driver {
	case "provider":
		res = RunProviderReplay(t, &rf, verbose)
	case "pair":
		res = RunPairReplay(t, &rf)
	default:
		spec := RunSpec{Seed: rf.RunSeed, Prop: rf.Property, Tier: rf.Tier, Replay: streams, MaxScans: rf.MaxScans, KeepLog: verbose, Profile: rf.Profile}
		if len(rf.Force) > 0 {
			force := rf.Force
			sweep := rf.Variant == "sweep"
			spec.Mutate = func(c *RunCfg) {
				if sweep {
					sweepCalm(c)
				}
				for k, v := range force {
					c.ForceFault[k] = v
				}
			}
		}
		res = RunOne(t, spec, newStats())
	}
	if res.HarnessErr != "" {
		return false, "harness error: " + res.HarnessErr
	}
	want := Violation{Property: rf.Property, Rule: rf.Rule, Sub: rf.Sub, Site: rf.Site}
	v, ok := findSame(res.Violations, want)
	if verbose {
		for _, l := range res.Log {
			fmt.Println("  |", l)
		}
	}
	if !ok {
		var got []string
		for _, x := range res.Violations {
			got = append(got, x.Key())
		}
		return false, fmt.Sprintf("violation %s did not fire (fired: %v)", want.Key(), got)
	}
	m := fmt.Sprintf("reproduced %s at scan %d life %d group %q: %s", v.Key(), v.Scan, v.Life, v.Group, v.Detail)
	if rf.Expect.LogHash != "" && res.LogHash != rf.Expect.LogHash && !strings.Contains(rf.Rule, "panic") {
		return true, m + " (event-log hash differs from the recorded one)"
	}
	if verbose {
		for _, l := range v.Excerpt {
			fmt.Println("    ", l)
		}
	}
	return true, m
}
