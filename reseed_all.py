#!/usr/bin/env python3
"""Re-runs the owning property's quick check (final harness) against every seeded change and records the
outcome in meta.json["final_check"]. Patches are applied to scratch worktrees of /repo HEAD under /tmp."""
import glob, json, os, subprocess, sys, tempfile, shutil, time
budget = sys.argv[1] if len(sys.argv) > 1 else "15"
only = sys.argv[2] if len(sys.argv) > 2 else ""
env = dict(os.environ, GOFLAGS="-mod=mod", GOPROXY="off", GOSUMDB="off", GOTOOLCHAIN="local")
for d in sorted(glob.glob("/verif/seeded/*")):
    name = os.path.basename(d)
    if only and only not in name:
        continue
    mp = os.path.join(d, "meta.json")
    m = json.load(open(mp))
    prop = m["property"]
    if m.get("reclassified"):
        print(name, "reclassified as property-preserving: not re-run", flush=True)
        continue
    wt = tempfile.mkdtemp(prefix="mre-", dir="/tmp"); os.rmdir(wt)
    scratch = tempfile.mkdtemp(prefix="mre-out-", dir="/tmp")
    subprocess.check_call(["git", "-C", "/repo", "worktree", "add", "-q", "--detach", wt, "HEAD"])
    try:
        p = subprocess.run(["git", "-C", wt, "apply", os.path.join(d, "patch.diff")], stdout=subprocess.PIPE, stderr=subprocess.STDOUT, text=True)
        at = "HEAD"
        if p.returncode != 0 and m.get("confirmed_at_repo_commit"):
            # the change was written against an earlier fix level: judge it on that tree
            subprocess.call(["git", "-C", "/repo", "worktree", "remove", "--force", wt])
            at = m["confirmed_at_repo_commit"]
            subprocess.check_call(["git", "-C", "/repo", "worktree", "add", "-q", "--detach", wt, at])
            p = subprocess.run(["git", "-C", wt, "apply", os.path.join(d, "patch.diff")], stdout=subprocess.PIPE, stderr=subprocess.STDOUT, text=True)
        if p.returncode != 0:
            m["final_check"] = {"verdict": "patch-does-not-apply", "detail": p.stdout[-300:]}
        else:
            props = [prop] + [q for q in m.get("checks", {}) if q != prop]
            res = {}
            for q in props:
                e = dict(env, VERIF_REPO=wt, VERIF_EVIDENCE_DIR=scratch, VERIF_REPLAY_DIR=scratch + "/replays", VERIF_BUDGET_S=budget)
                c = subprocess.run(["/verif/check", q, "quick"], env=e, stdout=subprocess.PIPE, stderr=subprocess.STDOUT, text=True)
                rules = [l.strip()[6:180] for l in c.stdout.splitlines() if l.startswith("  rule=")]
                res[q] = {"exit": c.returncode, "verdict": {1: "caught", 0: "missed", 2: "machinery"}.get(c.returncode), "budget_s": float(budget), "rules": rules[:3]}
            res["applied_on"] = at
            m["final_check"] = res
        json.dump(m, open(mp, "w"), indent=1)
        print(name, json.dumps(m["final_check"])[:200], flush=True)
    finally:
        subprocess.call(["git", "-C", "/repo", "worktree", "remove", "--force", wt])
        shutil.rmtree(scratch, ignore_errors=True)
