#!/usr/bin/env python3
import json
props = {p["id"]: p for p in map(json.loads, open("properties.jsonl"))}
claimed = ["C01","C02","C03","C04","C05","C06","C07","C08","C09","C10","C11","C12","C13","C15","C17","C18","C19","C20"]
design = {"C01":"6/C01","C02":"6/C02","C03":"6/C03","C04":"6/C04","C05":"6/C05","C06":"6/C06","C07":"6/C07","C08":"6/C08","C09":"6/C09","C10":"6/C10","C11":"6/C11","C12":"6/C12","C13":"6/C13","C15":"6/C15","C17":"6/C17","C18":"6/C18","C19":"6/C19","C20":"6/C20"}
extra = {
 "C11": " plus metamorphic run pairs (same seed, one group dry vs not dry) comparing every other group's journal",
 "C12": " plus metamorphic run pairs (world or faults varied inside one group only) and the start-up wiring cross-check against the real informer-backed listers",
 "C17": " plus the provider-level driver: the real aws.CloudProvider driven directly with boundary deltas and fleet sizes, and a directed enumeration of fleet sizes x failure points",
 "C18": " The deciding step is a directed enumeration of every fleet size in the boundary set x every single failure point (never ready, k-th attach failing before/after apply, CreateFleet error/Errors-only/Errors+instances, status poll error, failing terminate call) against the real provider in virtual time, plus seeded multi-fault provider histories and the controller simulation",
 "C19": " The deciding step is a directed enumeration of ASG (desired,min) x node-list length x foreign position x failing k-th terminate call against the real provider, plus seeded provider histories and the controller simulation for the cloud-before-k8s ordering",
 "C20": " plus the provider-level driver (odd provider IDs through GetInstance, failing calls) ",
}
checks = []
for pid in claimed:
    lvl = "fault_enumeration" if pid in ("C18","C19") else "exploration"
    checks.append({
        "property_id": pid,
        "quick_cmd": "./check %s quick" % pid,
        "thorough_cmd": "./check %s thorough" % pid,
        "evidence_file": "/verif/evidence/%s.json" % pid,
        "replay_cmd_template": "./check %s --replay {path}" % pid,
        "engine": "escalator-dst",
        "level_claimed": {
            "category": lvl,
            "text": ("Seeded search over simulated runs of the real controller (real NewController/RunOnce, real client-go, real AWS provider code) inside a virtual-time bubble against a simulated kube-apiserver, watch cache, AWS and world actors, with injected API faults, cache lag, interleaved writers, crashes and restarts; every scan is judged by an independent oracle over the served view and the journal of seam calls." + extra.get(pid, "") + " A clean batch is evidence, not proof: the space of histories is sampled, not enumerated" + ("; the directed failure-point enumeration is complete for the stated size set only." if lvl=="fault_enumeration" else ".")),
            "design_ref": "DESIGN.md section " + design[pid],
        },
        "level_note": "Trusted base: the harness's simulated API server/AWS/world and oracles (own exact arithmetic, own attribution), Go 1.26.8 testing/synctest virtual time; judged relative to the view served to each scan and to acknowledged results; cmd/main.go plumbing mirrored, not executed.",
        "technique": "deterministic simulation with fault injection (seeded schedules/faults, per-scan invariant oracles, replayable minimised traces)",
    })
m = {
 "version": 1,
 "setup_cmd": "./check build",
 "hooks": {
   "guard": "verif",
   "enable": "go1.26.8 test -c -tags verif (harness module replaces github.com/atlassian/escalator => /repo)",
   "baseline_off_cmd": "cd /repo && GOFLAGS=-mod=mod GOPROXY=off GOSUMDB=off go test -json -vet=off -count=1 -timeout 25m ./...",
   "source_commits": ["16a9fac"],
   "add_only": True,
 },
 "engines": [{"name": "escalator-dst", "path": "/verif/harness", "serves_properties": claimed,
              "kind_free_text": "deterministic simulation: Go test binary (go1.26.8, testing/synctest virtual time), seeded keyed choice streams, simulated kube-apiserver/watch cache/AWS/world, crash-restart supervisor, per-scan oracles, stream-level minimiser, replay files"}],
 "checks": checks,
 "not_applicable": [
   {"property_id": "C14", "reason": "pure predicate of one pod/node object: no schedule, clock, fault, interleaving, state or I/O enters it; its quantifier is exhaustive enumeration of shapes, which is input enumeration, not simulation (mis-attribution that matters to isolation is still reported under C12)."},
   {"property_id": "C16", "reason": "pure function of the configuration text evaluated once before anything runs: nothing for a scheduler, clock or fault to act on (admitted-but-unsafe configurations surface under the behavioural property they break, e.g. C06)."},
 ],
 "notes": "See DESIGN.md. known_findings.json lists genuine defects found (fixed/open).",
}
json.dump(m, open("MANIFEST.json","w"), indent=1)
