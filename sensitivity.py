#!/usr/bin/env python3
"""./sensitivity.py [budget_s] [name-filter]: every /verif/mutants/*.patch must (a) compile, (b) pass the repository's own tests,
(c) make the owning property's quick check exit 1 with a replayable violation. Scratch worktrees live under /tmp and are removed."""
import glob, os, subprocess, sys, tempfile, shutil, json, time
budget = sys.argv[1] if len(sys.argv) > 1 else "10"
flt = sys.argv[2] if len(sys.argv) > 2 else ""
env = dict(os.environ, GOFLAGS="-mod=mod", GOPROXY="off", GOSUMDB="off", GOTOOLCHAIN="local")
results = []
for patch in sorted(glob.glob("/verif/mutants/*.patch")):
    name = os.path.basename(patch)[:-6]
    if flt and flt not in name:
        continue
    prop = open(patch).readline().split()[-1]
    d = tempfile.mkdtemp(prefix="msens-", dir="/tmp"); os.rmdir(d)
    scratch = tempfile.mkdtemp(prefix="msens-out-", dir="/tmp")
    subprocess.check_call(["git", "-C", "/repo", "worktree", "add", "-q", "--detach", d, "HEAD"])
    try:
        body = "".join(open(patch).readlines()[1:])
        p = subprocess.run(["git", "-C", d, "apply"], input=body, text=True)
        if p.returncode != 0:
            results.append((name, prop, "patch-does-not-apply")); continue
        if os.environ.get("SKIP_TESTS") == "1":
            # the repository's own suite was run against each patch when RESULTS.txt was first produced; keep that verdict
            tests = "tests-as-before"
            for l in open("/verif/mutants/RESULTS.txt"):
                if l.startswith(name + " "):
                    tests = "TESTS-FAIL" if "TESTS-FAIL" in l else "tests-pass"
        else:
            t = subprocess.run("go build ./... && go test -vet=off -count=1 ./...", shell=True, cwd=d, env=env, stdout=subprocess.PIPE, stderr=subprocess.STDOUT, text=True)
            tests = "tests-pass" if t.returncode == 0 else "TESTS-FAIL"
        e = dict(env, VERIF_REPO=d, VERIF_EVIDENCE_DIR=scratch, VERIF_REPLAY_DIR=scratch + "/replays", VERIF_BUDGET_S=budget)
        t0 = time.time()
        c = subprocess.run(["/verif/check", prop, "quick"], env=e, stdout=subprocess.PIPE, stderr=subprocess.STDOUT, text=True)
        rules = [l.strip() for l in c.stdout.splitlines() if l.startswith("  rule=")]
        verdict = {1: "CAUGHT", 0: "MISSED", 2: "MACHINERY"}.get(c.returncode, "rc%d" % c.returncode)
        results.append((name, prop, "%s %s %.0fs %s" % (verdict, tests, time.time() - t0, (rules[0][:140] if rules else ""))))
    finally:
        subprocess.call(["git", "-C", "/repo", "worktree", "remove", "--force", d])
        shutil.rmtree(scratch, ignore_errors=True)
    print(*results[-1], flush=True)
caught = sum(1 for r in results if r[2].startswith("CAUGHT"))
print("SUMMARY: %d/%d caught" % (caught, len(results)))
