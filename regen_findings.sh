#!/bin/bash
# Regenerates /verif/findings/*.json with the CURRENT harness against the tree on which the defects were
# found (repo commit 16a9fac = pinned snapshot + verif hook, before any fix: commit), so that every replay
# listed in known_findings.json reproduces there and does not reproduce on the repaired tree.
set -u
export GOFLAGS=-mod=mod GOPROXY=off GOSUMDB=off GOTOOLCHAIN=local
d=$(mktemp -d /tmp/prefix.XXXXXX); rmdir "$d"
git -C /repo worktree add -q --detach "$d" 16a9fac || exit 2
out=$(mktemp -d /tmp/prefix-out.XXXXXX)
trap 'git -C /repo worktree remove --force "$d" >/dev/null 2>&1; rm -rf "$out"' EXIT
for p in C01 C02 C04 C05 C06 C07 C13 C17 C18 C19 C20; do
  VERIF_REPO="$d" VERIF_EVIDENCE_DIR="$out" VERIF_REPLAY_DIR="$out/rp" VERIF_BUDGET_S="${1:-40}" VERIF_TIER=thorough /verif/check $p thorough > "$out/$p.txt" 2>&1
  echo "== $p exit=$?"; grep -E "^VIOLATION" "$out/$p.txt" | cut -c1-200
done
mkdir -p /verif/findings/regenerated
cp "$out"/rp/*.json /verif/findings/regenerated/ 2>/dev/null
ls /verif/findings/regenerated | wc -l
