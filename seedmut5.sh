#!/bin/bash
# seedmut5.sh <dir id, e.g. W5a> <letter A|B|C> [budget]: wave-5 changes name their property in props.json
id=$1; L=$2; budget=${3:-15}
prop=$(python3 -c "import json;print(json.load(open('/tmp/mut/$id.out/props.json'))['$L'])")
tag="${id}${L}"
mkdir -p /tmp/mut/${prop}${tag}.out
cp /tmp/mut/$id.out/$L.diff /tmp/mut/${prop}${tag}.out/A.diff
cp /tmp/mut/$id.out/zz_demo_${id}_${L}_test.go /tmp/mut/${prop}${tag}.out/zz_demo_${prop}_A_test.go
cp /tmp/mut/$id.out/notes.md /tmp/mut/${prop}${tag}.out/notes.md 2>/dev/null
echo "### $id $L -> $prop"
MUT_WAVE=$tag /verif/seedmut.py $prop A $budget 2>&1 | python3 -c "
import sys,json
t=sys.stdin.read()
try:
    j=json.loads(t[t.index('{'):])
    print(j['confirmed'], j['demo_without_change'], j['existing_suite_with_change'], j['demo_with_change'], {k:(v['verdict'],v['rules'][:2]) for k,v in j['checks'].items()})
except Exception as e: print('ERR',e,t[-1200:])
"
