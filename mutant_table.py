#!/usr/bin/env python3
"""Regenerates the sensitivity tables in DESIGN.md from seeded/*/meta.json and mutants/RESULTS.txt."""
import json, glob, os, re
rows=[]
for d in sorted(glob.glob('/verif/seeded/*')):
    m=json.load(open(os.path.join(d,'meta.json')))
    name=os.path.basename(d)
    chk=m.get('checks',{})
    fc=m.get('final_check')
    if isinstance(fc,dict) and any(isinstance(v,dict) for v in fc.values()):
        chk={k:v for k,v in fc.items() if isinstance(v,dict)}
    res=[]
    for p,v in chk.items():
        rule=(v.get('rules') or [''])[0]
        rule=re.sub(r'^rule=','',rule).split(' ')[0]
        res.append("%s %s @%ss%s" % (p, v.get('verdict'), int(v.get('budget_s',0)), (" `%s`"%rule) if rule else ''))
    rows.append("| %s | %s | %s | %s |" % (name, m.get('what','').replace('|','/'), m.get('needs_to_manifest','').replace('|','/'), "; ".join(res)))
tbl="**Seeded by independent sub-agents (`/verif/seeded/`)** — confirmed: suite passes with the change, own demonstration fails with it and passes without.\n\n| id | change | needs, to manifest | quick check result (final harness) |\n|---|---|---|---|\n"+"\n".join(rows)+"\n"
hand=""
rp='/verif/mutants/RESULTS.txt'
if os.path.exists(rp):
    hr=[]
    for l in open(rp):
        parts=l.split(None,3)
        if len(parts)<3 or parts[0]=='SUMMARY:': continue
        name,prop,verdict=parts[0],parts[1],parts[2]
        rest=parts[3].strip() if len(parts)>3 else ''
        tests='suite also fails' if 'TESTS-FAIL' in rest else 'suite passes'
        rule=''
        mm=re.search(r'rule=(\S+)',rest)
        if mm: rule='`%s`'%mm.group(1)
        hr.append("| %s | %s | %s | %s | %s |" % (name,prop,verdict.lower(),tests,rule))
    hand="\n**Hand-written (`/verif/mutants/*.patch`, `./sensitivity.py`)**\n\n| mutant | property | verdict | repository tests | first rule |\n|---|---|---|---|---|\n"+"\n".join(hr)+"\n"
s=open('/verif/DESIGN.md').read()
block="<!-- MUTANT_TABLE_BEGIN -->\n"+tbl+hand+"<!-- MUTANT_TABLE_END -->"
if '@@MUTANT_TABLE@@' in s:
    s=s.replace('@@MUTANT_TABLE@@',block)
else:
    s=re.sub(r'<!-- MUTANT_TABLE_BEGIN -->.*?<!-- MUTANT_TABLE_END -->',lambda m:block,s,flags=re.S)
open('/verif/DESIGN.md','w').write(s)
print(len(rows),"seeded rows")
