#!/usr/bin/env python3
"""./seedmut.py <PROP> <A|B> [budget_s] [extra props...]
Confirms a sub-agent's seeded change in a scratch worktree (outside /repo and /verif):
 1. patch applies, project builds, the whole existing suite passes with it;
 2. the demonstration test FAILS with the change and PASSES without it;
 3. runs the owning property's quick check (and any extra) against the changed tree;
then files it under /verif/seeded/<PROP>-<A|B>/ (patch.diff, demo test, meta.json)."""
import os, sys, subprocess, tempfile, shutil, json, re, time
prop, which = sys.argv[1], sys.argv[2]
budget = sys.argv[3] if len(sys.argv) > 3 else "10"
extra = sys.argv[4:]
wave = os.environ.get("MUT_WAVE", "")
src = "/tmp/mut/%s%s.out" % (prop, wave)
label = which if not wave else {"w3": {"A": "C", "B": "D"}, "w4": {"A": "E", "B": "F"}}.get(wave, {}).get(which, wave)
diff = os.path.join(src, which + ".diff")
demo = os.path.join(src, "zz_demo_%s_%s_test.go" % (prop, which))
env = dict(os.environ, GOFLAGS="-mod=mod", GOPROXY="off", GOSUMDB="off", GOTOOLCHAIN="local")
place = None
for l in open(demo):
    m = re.match(r"//\s*place in:\s*(\S+)", l)
    if m:
        place = m.group(1).strip("/"); break
assert place, "no place-in line"
d = tempfile.mkdtemp(prefix="mseed-", dir="/tmp"); os.rmdir(d)
scratch = tempfile.mkdtemp(prefix="mseed-out-", dir="/tmp")
subprocess.check_call(["git", "-C", "/repo", "worktree", "add", "-q", "--detach", d, "HEAD"])
meta = {"property": prop, "variant": label, "wave": wave or "w1/w2", "confirmed_at_repo_commit": subprocess.run(["git", "-C", "/repo", "rev-parse", "--short", "HEAD"], stdout=subprocess.PIPE, text=True).stdout.strip(), "ran": []}
def run(cmd, cwd=d, e=env):
    p = subprocess.run(cmd, shell=True, cwd=cwd, env=e, stdout=subprocess.PIPE, stderr=subprocess.STDOUT, text=True)
    return p.returncode, p.stdout
try:
    demo_dst = os.path.join(d, place, os.path.basename(demo))
    testname = "|".join(re.findall(r"^func (Test\w+)\(", open(demo).read(), re.M))
    pkg = "./" + place + "/"
    # without the change: demo passes
    shutil.copy(demo, demo_dst)
    rc, out = run("go test -vet=off -count=1 -run '%s' %s" % (testname, pkg))
    meta["demo_without_change"] = "pass" if rc == 0 else "FAIL"
    meta["ran"].append("clean tree: go test -run '%s' %s -> rc %d" % (testname, pkg, rc))
    os.remove(demo_dst)
    rc, out = run("git apply " + diff)
    assert rc == 0, "patch does not apply: " + out
    rc, out = run("go build ./... && go test -vet=off -count=1 ./...")
    meta["existing_suite_with_change"] = "pass" if rc == 0 else "FAIL"
    meta["ran"].append("changed tree: go build ./... && go test -vet=off -count=1 ./... -> rc %d" % rc)
    if rc != 0:
        print(out[-1500:])
    shutil.copy(demo, demo_dst)
    rc, out = run("go test -vet=off -count=1 -run '%s' %s" % (testname, pkg))
    meta["demo_with_change"] = "fail" if rc != 0 else "PASSES(!)"
    meta["ran"].append("changed tree: go test -run '%s' %s -> rc %d" % (testname, pkg, rc))
    os.remove(demo_dst)
    meta["checks"] = {}
    for p in [prop] + extra:
        e = dict(env, VERIF_REPO=d, VERIF_EVIDENCE_DIR=scratch, VERIF_REPLAY_DIR=scratch + "/replays", VERIF_BUDGET_S=budget)
        t0 = time.time()
        c = subprocess.run(["/verif/check", p, "quick"], env=e, stdout=subprocess.PIPE, stderr=subprocess.STDOUT, text=True)
        rules = [l.strip()[:200] for l in c.stdout.splitlines() if l.startswith("  rule=")]
        meta["checks"][p] = {"exit": c.returncode, "verdict": {1: "caught", 0: "missed", 2: "machinery"}.get(c.returncode), "budget_s": float(budget), "rules": rules[:4]}
        meta["ran"].append("VERIF_REPO=<changed tree> VERIF_BUDGET_S=%s ./check %s quick -> exit %d" % (budget, p, c.returncode))
        if c.returncode == 2:
            print(c.stdout[-1500:])
finally:
    subprocess.call(["git", "-C", "/repo", "worktree", "remove", "--force", d])
    shutil.rmtree(scratch, ignore_errors=True)
ok = meta.get("demo_without_change") == "pass" and meta.get("existing_suite_with_change") == "pass" and meta.get("demo_with_change") == "fail"
meta["confirmed"] = ok
notes = os.path.join(src, "notes.md")
print(json.dumps(meta, indent=1))
if ok:
    dst = "/verif/seeded/%s-%s" % (prop, label)
    os.makedirs(dst, exist_ok=True)
    shutil.copy(diff, os.path.join(dst, "patch.diff"))
    shutil.copy(demo, os.path.join(dst, os.path.basename(demo)))
    if os.path.exists(notes):
        shutil.copy(notes, os.path.join(dst, "agent_notes.md"))
    old = {}
    mp = os.path.join(dst, "meta.json")
    if os.path.exists(mp):
        old = json.load(open(mp))
    for k in ("needs_to_manifest", "what"):
        if k in old:
            meta[k] = old[k]
    json.dump(meta, open(mp, "w"), indent=1)
